//go:build verif

package bytecode

import (
	"evylang.dev/evy/pkg/parser"
)

// C17 — emitted bytecode is well formed and the VM cannot be crashed.

// ZZC17Operand: encoding lemma. For every opcode with an operand and every
// int operand o, decoding what Make emitted gives o back — or Make refuses.
func ZZC17Operand() {
	ops := []Opcode{OpConstant, OpGetGlobal, OpSetGlobal, OpDrop, OpGetLocal, OpSetLocal, OpArray, OpMap, OpJump, OpJumpOnFalse, OpStepRange, OpIterRange}
	op := ops[zzChoice("op", len(ops))]
	o := zzInt("o", -(1 << 40), 1<<40)
	ins, err := Make(op, o)
	if err != nil {
		zzReach("make-refuses")
		zzAssert(o < 0 || o > 65535, "C17 operand: Make only refuses operands outside the 16-bit range")
		zzWitness("end-refused")
		return
	}
	def, _ := Lookup(op)
	got, n := ReadOperands(def, ins[1:])
	zzAssert(n == 2 && len(ins) == 3, "C17 operand: instruction is opcode + 2 operand bytes")
	zzAssert(got[0] == o, "C17 operand: the operand decodes to the value the compiler asked for (operands beyond 16 bits must be rejected, not wrapped)")
	zzReach("make-ok")
	zzWitness("end")
}

// ZZC17Patch: back-patching lemma for jump targets.
func ZZC17Patch() {
	target := zzInt("target", 0, 1<<40)
	ins := Instructions{byte(OpJump), 0x27, 0x0f}
	ins.changeOperand(0, target) // a refusal leaves the placeholder in place
	got := int(ReadUint16(ins[1:]))
	zzAssert(zzOr(got == target, zzAnd(got == JumpPlaceholder, target > 65535)), "C17 patch: a back-patched jump lands where the compiler computed (targets beyond 16 bits must be rejected, not wrapped)")
	zzWitness("end")
}

// ---- symbol table: one operation from an arbitrary valid chain ----

var zzSymNames = []string{"a", "b", "c"}

type zzVisible struct {
	name  string
	scope SymbolScope
	index int
}

func zzVisibleSyms(t *SymbolTable) []zzVisible {
	var out []zzVisible
	for _, n := range zzSymNames {
		if s, ok := t.Resolve(n); ok {
			out = append(out, zzVisible{n, s.Scope, s.Index})
		}
	}
	return out
}

// ZZC17SymbolStep: arbitrary chain of 1..D tables with symbolic index
// counters and symbolic slots satisfying the representation invariant; one
// of Define / Push+Define / Pop with a symbolic name.
func ZZC17SymbolStep() {
	D := zzParam("D", 3)
	depth := 1 + zzChoice("depth", D)
	var chain []*SymbolTable
	var cur *SymbolTable
	for d := 0; d < depth; d++ {
		t := &SymbolTable{store: map[string]Symbol{}, outer: cur}
		base := 0
		if d >= 2 {
			base = cur.index // a nested local scope starts after its parent's locals
		}
		t.index = zzInt("index", 0, 60000)
		t.nestedMaxIndex = zzInt("nmax", 0, 60000)
		zzAssume(t.index >= base)
		// members: a symbolic subset of the names with symbolic, distinct slots in [base, index)
		var used []int
		for _, n := range zzSymNames {
			if zzChoice("member", 2) == 1 {
				ix := zzInt("slot", 0, 60000)
				zzAssume(ix >= base && ix < t.index)
				for _, u := range used {
					zzAssume(ix != u)
				}
				used = append(used, ix)
				sc := LocalScope
				if d == 0 {
					sc = GlobalScope
				}
				t.store[n] = Symbol{Name: n, Scope: sc, Index: ix}
			}
		}
		chain = append(chain, t)
		cur = t
	}
	name := zzSymNames[zzChoice("name", len(zzSymNames))]
	switch zzChoice("op", 3) {
	case 0: // Define in the current scope
		sym := cur.Define(name)
		zzReach("define")
		got, ok := cur.Resolve(name)
		zzAssert(ok && got.Name == sym.Name && got.Scope == sym.Scope, "C17 symbols: a defined name resolves to its symbol")
		zzAssert(got.Index == sym.Index, "C17 symbols: a defined name resolves to its slot")
		if depth == 1 {
			zzAssert(sym.Scope == GlobalScope, "C17 symbols: top-level definitions are globals")
		} else {
			zzAssert(sym.Scope == LocalScope, "C17 symbols: nested definitions are locals")
		}
	case 1: // enter a block and define
		cur = cur.Push()
		sym := cur.Define(name)
		zzReach("push-define")
		zzAssert(sym.Scope == LocalScope, "C17 symbols: a block-level definition is a local")
	case 2: // leave a block
		if depth >= 2 {
			idx, nmax := cur.index, cur.nestedMaxIndex
			par := cur.Pop()
			zzReach("pop")
			zzAssert(par == chain[depth-2], "C17 symbols: Pop returns the enclosing table")
			zzAssert(zzAnd(par.nestedMaxIndex >= idx, par.nestedMaxIndex >= nmax), "C17 symbols: the high-water mark covers every slot handed out in the block")
			cur = par
		}
	}
	// two variables alive at the same time never share a storage slot
	var vis []zzVisible
	for t := cur; t != nil; t = t.outer {
		for _, n := range zzSymNames {
			if s, ok := t.store[n]; ok {
				vis = append(vis, zzVisible{n, s.Scope, s.Index})
			}
		}
	}
	for i := 0; i < len(vis); i++ {
		for j := i + 1; j < len(vis); j++ {
			if vis[i].scope == vis[j].scope {
				zzAssert(vis[i].index != vis[j].index, "C17 symbols: two variables alive at the same time never share a slot")
			}
		}
	}
	if cur.outer != nil {
		for _, v := range vis {
			if v.scope == LocalScope {
				zzAssert(v.index < cur.index, "C17 symbols: every live local slot is below the current counter")
			}
		}
	}
	zzWitness("end")
}

// ---- verifier on emitted code ----

type zzIns struct {
	pos     int
	op      Opcode
	operand int
	hasOp   bool
	next    int
}

func zzDecode(bc *Bytecode) ([]zzIns, map[int]int, bool) {
	var out []zzIns
	at := map[int]int{}
	ins := bc.Instructions
	for i := 0; i < len(ins); {
		def, err := Lookup(Opcode(ins[i]))
		if err != nil {
			return nil, nil, false
		}
		w := 0
		for _, x := range def.OperandWidths {
			w += x
		}
		if i+1+w > len(ins) {
			return nil, nil, false
		}
		z := zzIns{pos: i, op: Opcode(ins[i]), next: i + 1 + w}
		if w == 2 {
			z.operand = int(ReadUint16(ins[i+1:]))
			z.hasOp = true
		}
		at[i] = len(out)
		out = append(out, z)
		i += 1 + w
	}
	return out, at, true
}

// zzVerify checks the structural well-formedness of emitted bytecode.
func zzVerify(bc *Bytecode, what string) {
	code, at, ok := zzDecode(bc)
	zzAssert(ok, "C17 verify ("+what+"): every byte sequence decodes into known instructions")
	if !ok {
		return
	}
	end := len(bc.Instructions)
	height := map[int]int{}
	type item struct{ pos, h int }
	work := []item{{0, 0}}
	if end == 0 {
		return
	}
	endH := -1
	for len(work) > 0 {
		it := work[len(work)-1]
		work = work[:len(work)-1]
		if it.pos == end {
			if endH >= 0 {
				zzAssert(endH == it.h, "C17 verify ("+what+"): same stack height on all paths reaching the end")
			}
			endH = it.h
			continue
		}
		k, isBoundary := at[it.pos]
		zzAssert(isBoundary, "C17 verify ("+what+"): every jump lands on an instruction boundary inside the program")
		if !isBoundary {
			return
		}
		if h, seen := height[it.pos]; seen {
			zzAssert(h == it.h, "C17 verify ("+what+"): same stack height on all paths reaching an instruction")
			continue
		}
		height[it.pos] = it.h
		z := code[k]
		h := it.h
		push := func(pos, hh int) {
			zzAssert(hh >= 0, "C17 verify ("+what+"): operand stack never underflows")
			if hh >= 0 {
				work = append(work, item{pos, hh})
			}
		}
		switch z.op {
		case OpConstant:
			zzAssert(z.operand < len(bc.Constants), "C17 verify ("+what+"): constant operand in range")
			push(z.next, h+1)
		case OpGetGlobal:
			zzAssert(z.operand < bc.GlobalCount, "C17 verify ("+what+"): global operand in range")
			push(z.next, h+1)
		case OpSetGlobal:
			zzAssert(z.operand < bc.GlobalCount, "C17 verify ("+what+"): global operand in range")
			push(z.next, h-1)
		case OpGetLocal:
			zzAssert(z.operand < bc.LocalCount, "C17 verify ("+what+"): local operand in range")
			push(z.next, h+1)
		case OpSetLocal:
			zzAssert(z.operand < bc.LocalCount, "C17 verify ("+what+"): local operand in range")
			push(z.next, h-1)
		case OpDrop:
			push(z.next, h-z.operand)
		case OpTrue, OpFalse, OpNone:
			push(z.next, h+1)
		case OpNot, OpMinus:
			push(z.next, h)
		case OpAdd, OpSubtract, OpMultiply, OpDivide, OpModulo, OpEqual, OpNotEqual,
			OpNumLessThan, OpNumLessThanEqual, OpNumGreaterThan, OpNumGreaterThanEqual,
			OpStringLessThan, OpStringLessThanEqual, OpStringGreaterThan, OpStringGreaterThanEqual,
			OpStringConcatenate, OpArrayConcatenate, OpArrayRepeat, OpIndex:
			push(z.next, h-1)
		case OpArray:
			push(z.next, h-z.operand+1)
		case OpMap:
			push(z.next, h-2*z.operand+1)
		case OpSetIndex:
			push(z.next, h-3)
		case OpSlice:
			push(z.next, h-2)
		case OpJump:
			zzAssert(z.operand <= end, "C17 verify ("+what+"): jump target inside the program")
			push(z.operand, h)
		case OpJumpOnFalse:
			zzAssert(z.operand <= end, "C17 verify ("+what+"): jump target inside the program")
			extra := 0
			if k > 0 && (code[k-1].op == OpStepRange || code[k-1].op == OpIterRange) && code[k-1].operand != 0 {
				extra = 1 // the range instruction pushed the loop variable on the continuing path
			}
			push(z.operand, h-1)
			push(z.next, h-1+extra)
		case OpStepRange:
			zzAssert(h >= 3, "C17 verify ("+what+"): step range state on the stack")
			push(z.next, h+1)
		case OpIterRange:
			zzAssert(h >= 2, "C17 verify ("+what+"): iter range state on the stack")
			push(z.next, h+1)
		default:
			zzAssert(false, "C17 verify ("+what+"): opcode without a stack rule")
		}
	}
	if endH >= 0 {
		zzAssert(endH == 0, "C17 verify ("+what+"): operand stack is empty when the program ends")
	}
}

func zzCompile(src string) (*Compiler, *Bytecode, *parser.Program, error, error) {
	prog, perr := parser.Parse(src, parser.Builtins{})
	if perr != nil {
		return nil, nil, nil, perr, nil
	}
	c := NewCompiler()
	if err := c.Compile(prog); err != nil {
		return c, nil, prog, nil, err
	}
	return c, c.Bytecode(), prog, nil, nil
}
