//go:build verif

package bytecode

import (
	"errors"
	"strconv"
	"strings"

	"evylang.dev/evy/pkg/evaluator"
	"evylang.dev/evy/pkg/parser"
)

// C16 — compiled bytecode behaves like the tree-walking evaluator.
//
// Program family: templates over the whole language, the two leading
// declarations `a := 1`, `b := 2` carry symbolic numbers. The evaluator runs
// the same text plus one `print <global>` per global; the VM's globals are
// read through the compiler's symbol table (in-package access).

type zzTmpl struct {
	name        string
	src         string
	unsupported bool   // uses a construct the compiler has no translation for: Compile must fail
	assume      string // "" | "step" (|a|>=1 or a==0) | "small" (a, b integers in [-3,6])
}

var zzTemplates = []zzTmpl{
	{name: "arith", src: "x := a + b * 2 - a / 4\ny := (a + b) * (a - b)\n"},
	{name: "divmod", src: "x := a / b\ny := a % b\n"},
	{name: "compare", src: "p := a < b\nq := a <= b\nr := a > b\ns := a >= b\ne := a == b\nn := a != b\n"},
	{name: "unary", src: "x := -a\ny := -(-b)\np := !(a < b)\n"},
	{name: "strings", src: "s := \"ab\" + \"cd\"\np := \"ab\" < \"b\"\nq := s == \"abcd\"\nr := \"b\" >= \"ab\"\nt := s != \"x\"\n"},
	{name: "boolops", src: "p := a < b and b < 10\nq := a < b or b < 10\n"},
	{name: "arrayindex", src: "arr := [a b 3]\nx := arr[0]\ny := arr[-1]\nz := arr[b]\n"},
	{name: "arrayslice", src: "arr := [1 2 3 4]\ns := arr[a:b]\nt := arr[:b]\nu := arr[a:]\n", assume: "small"},
	{name: "arrayconcat", src: "c := [a] + [b]\nd := [a b] * 2\ne := [] + [a]\n"},
	{name: "arrayrepeat", src: "e := [1 2] * a\n", assume: "small"},
	{name: "mapindex", src: "m := {k:a j:b}\nx := m[\"k\"]\ny := m[\"j\"]\n"},
	{name: "mapmissing", src: "m := {k:a j:b}\nx := m[\"zz\"]\n"},
	{name: "mapset", src: "m := {k:a}\nm[\"j\"] = b\nm[\"k\"] = b\nks := \"\"\nfor q := range m\n    ks = ks + q\nend\n"},
	{name: "arrayset", src: "arr := [1 2 3]\narr[a] = b\n"},
	{name: "ifelse", src: "x := 0\nif a < b\n    x = 1\nelse if a == b\n    x = 2\nelse\n    x = 3\nend\n"},
	{name: "while", src: "i := 0\ns := 0\nwhile i < 3\n    s = s + a\n    i = i + 1\nend\n"},
	{name: "forrange", src: "s := 0\nfor i := range 3\n    s = s + i * a\nend\nt := 0\nfor range 2\n    t = t + b\nend\n"},
	{name: "forstep", src: "s := 0\nn := 0\nfor i := range 0 5 a\n    s = s + i\n    n = n + 1\nend\n", assume: "step"},
	{name: "forstepdown", src: "s := 0\nfor i := range 4 0 -1\n    s = s * 10 + i + a\nend\n"},
	{name: "forarray", src: "s := 0\nfor e := range [a b 3]\n    s = s * 2 + e\nend\n"},
	{name: "forstring", src: "r := \"\"\nfor c := range \"abc\"\n    r = c + r\nend\nx := a\nx = b\n"},
	{name: "utf8string", src: "s := \"añb\"\nc := s[1]\nd := s[-1]\nn := 0\nfor range s\n    n = n + 1\nend\nx := a + b\n"},
	{name: "formap", src: "ks := \"\"\nfor k := range {p:a q:b}\n    ks = ks + k\nend\n"},
	{name: "break", src: "i := 0\nwhile true\n    i = i + 1\n    if i > 2\n        break\n    end\nend\nj := 0\nfor k := range 10\n    if k > a\n        break\n    end\n    j = j + 1\nend\n", assume: "small"},
	{name: "shadow", src: "x := 1\ny := 0\nif a < b\n    x := 2\n    y = x\nelse\n    x := 3\n    y = x\nend\nz := x\n"},
	{name: "loopvarshadow", src: "x := 5\ns := 0\nfor x := range 3\n    s = s + x\nend\nz := x\nw := a + b\n"},
	{name: "nestedlocals", src: "s := 0\nfor i := range 2\n    p := i * a\n    for j := range 2\n        q := j * b\n        s = s + p + q\n    end\nend\n"},
	{name: "stringslice", src: "s := \"hello\"\nt := s[a:b]\nu := s[b]\n", assume: "small"},
	{name: "nestedindexset", src: "x := [[1 2] [3 4]]\nx[0][0] = x[0][1] + a\ny := x[1][b]\n", assume: "small"},
	{name: "equalcomposite", src: "p := [a b] == [a b]\nq := {k:a} == {k:b}\nr := [a] != [b]\n"},
	// locals declared after a nested block has closed, used as non-first operands
	{name: "latelocals", src: "t := 0\nif a < b or a >= b\n    p := a\n    if true\n        q := b\n        t = t + q\n    end\n    r := a * 2\n    s := b * 3\n    t = t + p + (r + s) * (p + r) - s\nend\n"},
	{name: "latelocalswhile", src: "t := 0\ni := 0\nwhile i < 2\n    i = i + 1\n    if i == 1\n        u := a\n        t = t + u\n    end\n    v := b + i\n    w := \"x\" + \"a\"\n    t = t + 1 + (v * 2 + 1) * (v + 3)\n    w = w + w\nend\n"},
	// arrays derived from a common base by concatenation are independent
	{name: "concatfork", src: "base := [1 2 3] + [a]\nleft := base + [5]\nright := base + [b]\nsame := left == right\nl2 := left + [7]\nr2 := left + [8]\n"},
	{name: "concatloop", src: "acc := [0]\nfor i := range 4\n    acc = acc + [i+a]\nend\np1 := acc + [b]\np2 := acc + [9]\neq := p1 == p2\n"},
	{name: "slicefork", src: "base := [1 2 3 4]\ns1 := base[1:3]\ns2 := s1 + [a]\ns3 := s1 + [b]\nbase[1] = 9\n"},
	{name: "repeatfork", src: "base := [a] * 3\nc1 := base + [1]\nc2 := base + [b]\n"},
	// constructs without a translation: Compile must fail, never drop them silently
	{name: "typeddecl", src: "x:num\nx = a + b\n", unsupported: true},
	{name: "funcdef", src: "func f:num n:num\n    return n * 2\nend\nx := f a\ny := b\n", unsupported: true},
	{name: "dot", src: "m := {k:a}\nx := m.k\ny := b\n", unsupported: true},
	{name: "dotassign", src: "m := {k:a}\nm.k = b\n", unsupported: true},
	{name: "any", src: "v:any\nv = a\nx := v.(num)\ny := b\n", unsupported: true},
	{name: "anyarray", src: "arr := [a \"s\"]\ny := b\n", unsupported: true},
	{name: "typedempty", src: "arr:[]num\narr = arr + [a b]\n", unsupported: true},
	// breaks of an outer loop before, between and after inner loops that have breaks of their own
	{name: "breakouterwhile", src: "n := 0\nwhile true\n    n = n + 1\n    if n > a\n        break\n    end\n    for j := range 3\n        if j == 1\n            break\n        end\n        n = n + 10\n    end\n    if n > 50\n        break\n    end\n    while true\n        n = n + 100\n        break\n    end\n    if n > b * 100\n        break\n    end\nend\nm := n\n", assume: "small"},
	{name: "breakouterfor", src: "n := 0\nfor k := range 6\n    if k == a\n        break\n    end\n    i := 0\n    while i < 3\n        i = i + 1\n        if i == b\n            break\n        end\n        for q := range 2\n            if q == 1\n                break\n            end\n            n = n + 1\n        end\n        if i + k > 5\n            break\n        end\n    end\n    n = n + 10\n    if n > 45\n        break\n    end\nend\nm := n\n", assume: "small"},
	{name: "breaksiblings", src: "n := 0\nfor k := range 3\n    for p := range 3\n        if p > a\n            break\n        end\n        n = n + 1\n    end\n    for q := range 3\n        if q > b\n            break\n        end\n        n = n + 10\n    end\n    if k == 1\n        break\n    end\nend\n", assume: "small"},
}

// zzUnsupportedSnips: statements the compiler has no translation for (two
// lines each, indented by the wrapper). Wrapped into every kind of block they
// must still make Compile fail: a block must not swallow the error.
var zzUnsupportedSnips = []struct{ name, pre, body string }{
	{"typeddecl", "", "n:num\nn = a\nx = x + n\n"},
	{"funccall", "func f:num n:num\n    return n * 2\nend\n", "x = f a\n"},
	{"proccall", "func g n:num\n    x = n\nend\n", "g b\n"},
	{"dot", "m := {k:a}\n", "x = m.k\n"},
	{"dotassign", "m := {k:a}\n", "m.k = b\n"},
	{"typeassert", "v:any\nv = a\n", "x = v.(num)\n"},
	{"anyelem", "", "arr := [a \"s\"]\narr = arr\n"},
}

var zzBlockWraps = []struct{ name, open, close string }{
	{"if", "if a == a or b == b\n", "end\n"},
	{"else", "if a != a\n    x = 1\nelse\n", "end\n"},
	{"elseif", "if a != a\n    x = 1\nelse if true\n", "end\n"},
	{"while", "i := 0\nwhile i < 2\n    i = i + 1\n", "end\n"},
	{"for", "for range 2\n", "end\n"},
	{"nested", "for range 2\n    if true\n", "    end\nend\n"},
}

func zzIndent(s, pad string) string {
	out := ""
	for _, l := range strings.Split(strings.TrimSuffix(s, "\n"), "\n") {
		out += pad + l + "\n"
	}
	return out
}

// zzAllTemplates: the hand-written templates plus every unsupported snippet inside every block kind.
func zzAllTemplates() []zzTmpl {
	all := append([]zzTmpl{}, zzTemplates...)
	for _, sn := range zzUnsupportedSnips {
		for _, w := range zzBlockWraps {
			pad := "    "
			if w.name == "nested" {
				pad = "        "
			}
			src := "x := 0\n" + sn.pre + w.open + zzIndent(sn.body, pad) + w.close
			all = append(all, zzTmpl{name: "unsupported-" + sn.name + "-in-" + w.name, src: src, unsupported: true})
		}
	}
	return all
}

type zzEvalPlat struct {
	evaluator.UnimplementedPlatform
	lines []string
}

func (p *zzEvalPlat) Print(s string)             { p.lines = append(p.lines, s) }
func (p *zzEvalPlat) Yielder() evaluator.Yielder { return nil }

func zzRender(v value) string {
	switch v := v.(type) {
	case numVal:
		return strconv.FormatFloat(float64(v), 'f', -1, 64)
	case boolVal:
		return strconv.FormatBool(bool(v))
	case stringVal:
		return string(v)
	case arrayVal:
		parts := make([]string, len(v.Elements))
		for i, e := range v.Elements {
			parts[i] = zzRender(e)
		}
		return "[" + strings.Join(parts, " ") + "]"
	case mapVal:
		parts := make([]string, 0, len(v.order))
		for _, k := range v.order {
			parts = append(parts, string(k)+":"+zzRender(v.m[k]))
		}
		return "{" + strings.Join(parts, " ") + "}"
	case nil:
		return "<unset>"
	}
	return "<" + v.String() + ">"
}

// zzGlobalNames: names declared at top level, in order.
func zzGlobalNames(prog *parser.Program) []string {
	var names []string
	for _, st := range prog.Statements {
		switch s := st.(type) {
		case *parser.InferredDeclStmt:
			names = append(names, s.Decl.Var.Name)
		case *parser.TypedDeclStmt:
			names = append(names, s.Decl.Var.Name)
		}
	}
	return names
}

func zzPatch(prog *parser.Program, a, b float64) {
	prog.Statements[0].(*parser.InferredDeclStmt).Decl.Value.(*parser.NumLiteral).Value = a
	prog.Statements[1].(*parser.InferredDeclStmt).Decl.Value.(*parser.NumLiteral).Value = b
}

func zzEvalClass(err error) string {
	switch {
	case err == nil:
		return "ok"
	case errors.Is(err, evaluator.ErrBounds):
		return "bounds"
	case errors.Is(err, evaluator.ErrIndexValue):
		return "indexvalue"
	case errors.Is(err, evaluator.ErrSlice):
		return "slice"
	case errors.Is(err, evaluator.ErrMapKey):
		return "mapkey"
	case errors.Is(err, evaluator.ErrBadRepetition):
		return "repetition"
	case errors.Is(err, evaluator.ErrRangevalue):
		return "rangevalue"
	case errors.Is(err, evaluator.ErrPanic):
		return "panic"
	}
	return "other"
}

func zzVMClass(err error) string {
	switch {
	case err == nil:
		return "ok"
	case errors.Is(err, ErrBounds):
		return "bounds"
	case errors.Is(err, ErrIndexValue):
		return "indexvalue"
	case errors.Is(err, ErrSlice):
		return "slice"
	case errors.Is(err, ErrMapKey):
		return "mapkey"
	case errors.Is(err, ErrBadRepetition):
		return "repetition"
	case errors.Is(err, ErrDivideByZero):
		return "divzero"
	case errors.Is(err, ErrRangeValue):
		return "rangevalue"
	case errors.Is(err, ErrPanic):
		return "panic"
	}
	return "other"
}

// zzScanGlobals: names declared by unindented `name := ...` / `name:type` lines.
func zzScanGlobals(src string) []string {
	var names []string
	for _, line := range strings.Split(src, "\n") {
		if line == "" || line[0] == ' ' {
			continue
		}
		k := strings.Index(line, ":")
		if k <= 0 || strings.ContainsAny(line[:k], " [\"") {
			if j := strings.Index(line, " := "); j > 0 && !strings.ContainsAny(line[:j], " [\"") {
				names = append(names, line[:j])
			}
			continue
		}
		names = append(names, line[:k])
	}
	return names
}

// ZZC16Diff: translation validation of one template with symbolic values.
func ZZC16Diff() { zzRunTemplate(16) }

// ZZC17Emitted: the verifier and the VM on the code emitted for the same
// program family (well-formedness, stack discipline, no host crash).
func ZZC17Emitted() { zzRunTemplate(17) }

func zzRunTemplate(mode int) {
	templates := zzAllTemplates()
	ti := zzChoice("prog", len(templates))
	t := templates[ti]
	a, b := zzFloat64("a"), zzFloat64("b")
	zzRunSource(mode, t, a, b)
}

func zzRunSource(mode int, t zzTmpl, a, b float64) {
	switch t.assume {
	case "step":
		zzAssume(a == 0 || a >= 1 || a <= -1)
	case "small":
		ia, ib := zzInt("ia", -3, 6), zzInt("ib", -3, 6)
		half := zzChoice("half", 3) // 0: both integral, 1: a fractional, 2: b fractional
		a, b = float64(ia), float64(ib)
		if half == 1 {
			a += 0.5
		}
		if half == 2 {
			b += 0.5
		}
	}
	base := "a := 1\nb := 2\n" + t.src
	// every global is used at least once, as the parser demands
	names := zzScanGlobals(base)
	uses := ""
	for _, n := range names {
		uses += n + " = " + n + "\n"
	}
	src := base + uses
	prog, err := parser.Parse(src, parser.Builtins{})
	zzAssert(err == nil, "C16: template parses for the compiler ("+t.name+")")
	if err != nil {
		zzLog(src + err.Error())
		return
	}
	zzPatch(prog, a, b)
	c := NewCompiler()
	cerr := c.Compile(prog)
	if t.unsupported && mode == 17 {
		zzAssume(cerr == nil) // C17 is about the code the compiler does emit
	}
	if t.unsupported && mode == 16 {
		zzReach("unsupported")
		zzAssert(cerr != nil, "C16: a construct the compiler cannot translate is rejected at compile time, not silently left out ("+t.name+")")
		zzWitness("end-unsupported")
		return
	}
	if cerr != nil {
		// rejecting a program is allowed; silently mistranslating is not
		zzReach("compile-rejected")
		zzWitness("end-rejected")
		return
	}
	bc := c.Bytecode()
	if mode == 17 {
		zzVerify(bc, t.name)
	}
	vm := NewVM(bc)
	verr := vm.Run()
	if mode == 17 {
		zzAssert(vm.sp == bc.LocalCount || verr != nil, "C17 run: operand stack is empty (sp == LocalCount) after a successful run ("+t.name+")")
		zzAssert(verr == nil || errors.Is(verr, ErrPanic), "C17 run: the VM ends normally or with a user error, never an internal one ("+t.name+")")
		zzReach("emitted-ran")
		zzWitness("end")
		return
	}

	// the evaluator on the same text plus one print per global
	p := &zzEvalPlat{}
	ev := evaluator.NewEvaluator(p)
	esrc := src
	for _, n := range names {
		esrc += "print " + n + "\n"
	}
	eprog, err := parser.Parse(esrc, evaluator.BuiltinDecls())
	zzAssert(err == nil, "C16: template parses for the evaluator ("+t.name+")")
	if err != nil {
		return
	}
	zzPatch(eprog, a, b)
	eerr := ev.Eval(eprog)
	ec, vc := zzEvalClass(eerr), zzVMClass(verr)
	if ec != "ok" {
		zzReach("eval-panics")
		zzAssert(vc != "ok", "C16: the VM fails where the evaluator panics ("+t.name+")")
		zzAssert(vc == ec || vc == "divzero", "C16: the VM fails with the run-time error corresponding to the evaluator's ("+t.name+")")
		zzWitness("end-panic")
		return
	}
	if vc == "divzero" {
		zzReach("vm-divzero")
		zzWitness("end-divzero")
		return // documented difference: division / modulo by zero is an error on the VM only
	}
	zzAssert(vc == "ok", "C16: the VM succeeds where the evaluator succeeds ("+t.name+")")
	if vc != "ok" {
		return
	}
	zzAssert(len(p.lines) == len(names), "C16: evaluator printed every global ("+t.name+")")
	for i, n := range names {
		sym, ok := c.symbolTable.Resolve(n)
		zzAssert(ok && sym.Scope == GlobalScope, "C16: every global of the program has a VM slot ("+t.name+")")
		if !ok || i >= len(p.lines) {
			continue
		}
		got := zzRender(vm.globals[sym.Index])
		zzAssert(got+"\n" == p.lines[i], "C16: global "+n+" has the same final value on the VM and in the evaluator ("+t.name+")")
	}
	zzReach("compared")
	zzWitness("end")
}

// ---- generated programs over the compiler's supported subset ----
//
// Blocks of assignments to the global accumulator t, block-local declarations
// (before and after nested blocks, read back later in the block), if / else,
// while, the numeric and array range forms and break. Locals are not
// observable on the VM, so every local flows into t; the evaluator is the
// reference (all globals are compared by zzRunSource).

type zzGSt struct {
	kind string // acc decl use if ifelse while fornum forarr break
	k    int
	body []*zzGSt
	els  []*zzGSt
	cond string
}

func zzGGenBlock(depth, maxDepth int, lens []int, inLoop bool, ctr *int, locals []string) []*zzGSt {
	n := 1 + zzChoice("glen", lens[depth])
	var out []*zzGSt
	own := map[string]bool{} // declared in this very block (a redeclaration there would be an error)
	for i := 0; i < n; i++ {
		last := i == n-1
		kinds := []string{"acc", "decl"}
		if len(locals) > 0 {
			kinds = append(kinds, "use", "use2")
		}
		var outer []string // locals of enclosing blocks: they may be shadowed here
		for _, l := range locals {
			if !own[l] && l[0] == 'v' {
				outer = append(outer, l)
			}
		}
		if len(outer) > 0 {
			kinds = append(kinds, "reshadow")
		}
		if depth < maxDepth {
			kinds = append(kinds, "if", "ifelse", "while", "fornum", "forarr")
		}
		if last && inLoop {
			kinds = append(kinds, "break")
		}
		*ctr++
		st := &zzGSt{kind: kinds[zzChoice("gstmt", len(kinds))], k: *ctr}
		switch st.kind {
		case "decl":
			locals = append(locals, "v"+strconv.Itoa(st.k))
			own["v"+strconv.Itoa(st.k)] = true
		case "reshadow":
			st.cond = outer[zzChoice("gouter", len(outer))]
			own[st.cond] = true
		case "use", "use2":
			st.cond = locals[zzChoice("glocal", len(locals))]
		case "if", "ifelse":
			st.cond = []string{"a < b", "t > 20", "a == a"}[zzChoice("gcond", 3)]
			st.body = zzGGenBlock(depth+1, maxDepth, lens, inLoop, ctr, locals)
			if st.kind == "ifelse" {
				st.kind = "if"
				st.els = zzGGenBlock(maxDepth, maxDepth, lens, inLoop, ctr, locals)
			}
		case "while", "fornum", "forarr":
			st.body = zzGGenBlock(depth+1, maxDepth, lens, true, ctr, append(append([]string{}, locals...), "i"+strconv.Itoa(st.k)))
		}
		out = append(out, st)
	}
	return out
}

func zzGRender(sb *strings.Builder, sts []*zzGSt, ind int) {
	pad := strings.Repeat("    ", ind)
	for _, st := range sts {
		k := strconv.Itoa(st.k)
		switch st.kind {
		case "acc":
			sb.WriteString(pad + "t = t * 3 + " + k + "\n")
		case "decl":
			sb.WriteString(pad + "v" + k + " := a + t + " + k + "\n" + pad + "t = t + v" + k + "\n")
		case "use":
			sb.WriteString(pad + "t = t * 2 + " + st.cond + " * 5 - (" + st.cond + " + 1)\n")
		case "reshadow": // a declaration that shadows an outer local and whose initialiser reads the outer one
			sb.WriteString(pad + st.cond + " := " + st.cond + " * 2 + 1\n" + pad + "t = t + " + st.cond + "\n")
		case "use2": // the local is the first operand and is read again afterwards
			sb.WriteString(pad + "t = " + st.cond + " * 7 + t\n" + pad + "t = " + st.cond + " - t\n")
		case "break":
			sb.WriteString(pad + "break\n")
		case "if":
			sb.WriteString(pad + "if " + st.cond + "\n")
			zzGRender(sb, st.body, ind+1)
			if st.els != nil {
				sb.WriteString(pad + "else\n")
				zzGRender(sb, st.els, ind+1)
			}
			sb.WriteString(pad + "end\n")
		case "while":
			sb.WriteString(pad + "i" + k + " := 0\n" + pad + "while i" + k + " < 2\n" + pad + "    i" + k + " = i" + k + " + 1\n")
			zzGRender(sb, st.body, ind+1)
			sb.WriteString(pad + "end\n")
		case "fornum":
			sb.WriteString(pad + "for i" + k + " := range 2\n" + pad + "    t = t + i" + k + "\n")
			zzGRender(sb, st.body, ind+1)
			sb.WriteString(pad + "end\n")
		case "forarr":
			sb.WriteString(pad + "for i" + k + " := range [b 7]\n" + pad + "    t = t + i" + k + "\n")
			zzGRender(sb, st.body, ind+1)
			sb.WriteString(pad + "end\n")
		}
	}
}

func zzGenSource() string {
	D := zzParam("GD", 2)
	lens := []int{zzParam("GL0", 2), zzParam("GL1", 2), zzParam("GL2", 1), 1}
	ctr := 0
	// the whole program sits in one block so that its declarations are locals
	body := zzGGenBlock(1, D, lens, false, &ctr, nil)
	var sb strings.Builder
	sb.WriteString("t := 0\nif a == a\n")
	zzGRender(&sb, body, 1)
	sb.WriteString("end\n")
	return sb.String()
}

// ZZC16Gen / ZZC17Gen: the differential check and the well-formedness
// verifier on every generated program.
func ZZC16Gen() {
	a, b := zzFloat64("a"), zzFloat64("b")
	zzRunSource(16, zzTmpl{name: "generated", src: zzGenSource()}, a, b)
}

func ZZC17Gen() {
	a, b := zzFloat64("a"), zzFloat64("b")
	zzRunSource(17, zzTmpl{name: "generated", src: zzGenSource()}, a, b)
}
