//go:build verif

package svg

import (
	"math"
	"strconv"
)

// C19 — SVG output shows exactly what was drawn.
//
// History harness: S commands (symbolic selector, symbolic numbers), then
// Push and a flattening that resolves inherited group attributes. The
// flattened list must be one shape per drawing command, in order, with the
// geometry of the command (x10, y flipped) and the pen style in effect when
// it was drawn.

type zzStyle struct {
	fill, stroke, linecap, dash string
	width                       float64 // svg units
	font                        string  // rendered text attributes
}

type zzShape struct {
	kind  string
	geo   []float64
	text  string
	style zzStyle
	own   bool // shape carries its own fill/stroke (clear)
}

var zzColors = []string{"red", "", "hsl(0deg 100% 50% / 50%)", "<b>&\"x"}

func zzF(f float64) string { return strconv.FormatFloat(f, 'f', -1, 64) }

func zzDefStyle() zzStyle {
	return zzStyle{fill: "black", stroke: "black", linecap: "round", dash: "", width: 1}
}

// effective attribute of an element after resolving inheritance
func zzEff(own, group Attr) zzStyle {
	st := zzDefStyle()
	apply := func(a Attr) {
		if a.Fill != "" {
			st.fill = a.Fill
		}
		if a.Stroke != "" {
			st.stroke = a.Stroke
		}
		if a.StrokeWidth != nil {
			st.width = *a.StrokeWidth
		}
		if a.StrokeLinecap != "" {
			st.linecap = a.StrokeLinecap
		}
		if a.StrokeDashArray != "" {
			st.dash = a.StrokeDashArray
		}
	}
	apply(group)
	apply(own)
	return st
}

func zzFontString(t TextAttr) string {
	s := t.TextAnchor + "/" + t.Baseline + "/" + t.FontStyle + "/" + t.FontFamily + "/" + t.LetterSpacing + "/"
	if t.FontSize != nil {
		s += zzF(*t.FontSize)
	}
	s += "/"
	if t.FontWeight != nil {
		s += zzF(*t.FontWeight)
	}
	return s
}

func zzFlattenOne(el any, group Attr, gtext TextAttr, out *[]zzShape) {
	switch e := el.(type) {
	case *Group:
		for _, c := range e.Elements {
			ga := e.Attr
			zzFlattenOne(c, ga, e.TextAttr, out)
		}
	case *Line:
		*out = append(*out, zzShape{kind: "line", geo: []float64{e.X1, e.Y1, e.X2, e.Y2}, style: zzEff(e.Attr, group)})
	case *Circle:
		*out = append(*out, zzShape{kind: "circle", geo: []float64{e.CX, e.CY, e.R}, style: zzEff(e.Attr, group)})
	case *Rect:
		*out = append(*out, zzShape{kind: "rect", geo: []float64{e.X, e.Y}, text: e.Width + "x" + e.Height, style: zzEff(e.Attr, group)})
	case *Polyline:
		*out = append(*out, zzShape{kind: "poly", text: e.Points, style: zzEff(e.Attr, group)})
	case *Ellipse:
		*out = append(*out, zzShape{kind: "ellipse", geo: []float64{e.CX, e.CY, e.RX, e.RY}, text: e.Transform, style: zzEff(e.Attr, group)})
	case *Text:
		st := zzEff(e.Attr, group)
		ta := e.TextAttr
		if ta == (TextAttr{}) {
			ta = gtext
		}
		st.font = zzFontString(ta)
		*out = append(*out, zzShape{kind: "text", geo: []float64{e.X, e.Y}, text: e.Value, style: st})
	}
}

func zzFlatten(rt *GraphicsPlatform) []zzShape {
	var out []zzShape
	for _, el := range rt.SVG.Elements {
		zzFlattenOne(el, Attr{}, TextAttr{}, &out)
	}
	return out
}

// zzC19Cmd performs one command (symbolic selector, symbolic numbers) on rt
// and on the oracle state (cursor px/py in SVG units, pen, expected shapes).
func zzC19Cmd(rt *GraphicsPlatform, px, py *float64, pen *zzStyle, want *[]zzShape) {
	cmd := zzChoice("cmd", 14)
	switch cmd {
	case 0: // move
		x, y := zzFloat64("x"), zzFloat64("y")
		rt.Move(x, y)
		*px, *py = 10*x, 1000-10*y
	case 1: // line
		x, y := zzFloat64("x"), zzFloat64("y")
		rt.Line(x, y)
		nx, ny := 10*x, 1000-10*y
		*want = append(*want, zzShape{kind: "line", geo: []float64{(*px), (*py), nx, ny}, style: *pen})
		*px, *py = nx, ny
	case 2: // rect
		w, h := zzFloat64("w"), zzFloat64("h")
		rt.Rect(w, h)
		sw, sh := 10*w, -(10 * h)
		nx, ny := (*px)+sw, (*py)+sh
		*want = append(*want, zzShape{kind: "rect", geo: []float64{min((*px), nx), min((*py), ny)}, text: zzF(math.Abs(sw)) + "x" + zzF(math.Abs(sh)), style: *pen})
		*px, *py = nx, ny
	case 3: // circle
		r := zzFloat64("r")
		rt.Circle(r)
		*want = append(*want, zzShape{kind: "circle", geo: []float64{(*px), (*py), 10 * r}, style: *pen})
	case 4: // ellipse (no rotation)
		x, y, rx, ry := zzFloat64("x"), zzFloat64("y"), zzFloat64("rx"), zzFloat64("ry")
		rt.Ellipse(x, y, rx, ry, 0, 0, 360)
		*want = append(*want, zzShape{kind: "ellipse", geo: []float64{10 * x, 1000 - 10*y, 10 * rx, 10 * ry}, style: *pen})
	case 5: // poly with two vertices
		x1, y1, x2, y2 := zzFloat64("x"), zzFloat64("y"), zzFloat64("x"), zzFloat64("y")
		rt.Poly([][]float64{{x1, y1}, {x2, y2}})
		*want = append(*want, zzShape{kind: "poly", text: zzF(10*x1) + "," + zzF(1000-10*y1) + " " + zzF(10*x2) + "," + zzF(1000-10*y2), style: *pen})
	case 6: // text
		rt.Text("hi <&>")
		st := *pen
		st.fill = pen.stroke // text is painted in the stroke colour
		*want = append(*want, zzShape{kind: "text", geo: []float64{(*px), (*py)}, text: "hi <&>", style: st})
	case 7: // clear
		c := zzColors[zzChoice("color", len(zzColors))]
		rt.Clear(c)
		if c == "" {
			c = "white"
		}
		st := *pen
		st.fill, st.stroke = c, c
		*want = append(*want, zzShape{kind: "rect", geo: []float64{0, 0}, text: "100%x100%", style: st, own: true})
	case 8: // width
		w := zzFloat64("w")
		rt.Width(w)
		pen.width = 10 * w
	case 9: // color
		c := zzColors[zzChoice("color", len(zzColors))]
		rt.Color(c)
		pen.fill, pen.stroke = c, c
	case 10: // stroke
		c := zzColors[zzChoice("color", len(zzColors))]
		rt.Stroke(c)
		pen.stroke = c
	case 11: // fill
		c := zzColors[zzChoice("color", len(zzColors))]
		rt.Fill(c)
		pen.fill = c
	case 12: // dash
		a, b := zzFloat64("d"), zzFloat64("d")
		rt.Dash([]float64{a, b})
		pen.dash = zzF(10*a) + " " + zzF(10*b)
	case 13: // linecap
		c := []string{"butt", "square", "round"}[zzChoice("cap", 3)]
		rt.Linecap(c)
		pen.linecap = c
	}
}

// zzC19Compare flushes rt and compares its flattened shapes with want.
func zzC19Compare(rt *GraphicsPlatform, want []zzShape) {
	rt.Push()
	got := zzFlatten(rt)
	zzAssert(len(got) == len(want), "C19: exactly one shape per drawing command")
	if len(got) != len(want) {
		return
	}
	for i := range want {
		g, w := got[i], want[i]
		zzAssert(g.kind == w.kind, "C19: shapes appear in drawing order")
		if g.kind != w.kind {
			return
		}
		zzAssert(len(g.geo) == len(w.geo), "C19: geometry arity")
		for k := range w.geo {
			if k < len(g.geo) {
				zzAssert(zzSameBits(g.geo[k], w.geo[k]), "C19: "+w.kind+" geometry is the command's, scaled by ten with the y axis flipped (coordinate "+strconv.Itoa(k)+")")
			}
		}
		zzAssert(g.text == w.text, "C19: "+w.kind+" text/points/size")
		// an empty colour string means "inherit", which resolves to the default
		ws := w.style
		if ws.fill == "" {
			ws.fill = "black"
		}
		if ws.stroke == "" {
			ws.stroke = "black"
		}
		if w.own && i > 0 {
			zzAssert(g.style.fill == ws.fill && g.style.stroke == ws.stroke, "C19: clear keeps its own colour")
			continue
		}
		if w.kind == "text" {
			zzAssert(g.style.stroke == ws.stroke, "C19: text stroke colour is the pen's when it was drawn")
			if w.style.fill != "" {
				// (an empty stroke string is no colour: what a text is painted with then is left open)
				zzAssert(g.style.fill == ws.fill, "C19: text is painted in the pen's stroke colour, whatever the fill and whatever it is grouped with")
			}
		} else {
			zzAssert(g.style.fill == ws.fill && g.style.stroke == ws.stroke, "C19: "+w.kind+" fill and stroke are the pen's when it was drawn")
		}
		zzAssert(g.style.linecap == ws.linecap && g.style.dash == ws.dash, "C19: "+w.kind+" line cap and dash are the pen's when it was drawn")
		zzAssert(zzSameBits(g.style.width, ws.width), "C19: "+w.kind+" stroke width is the pen's when it was drawn")
	}
}

// ZZC19History: S commands from the initial state.
func ZZC19History() {
	S := zzParam("S", 2)
	rt := NewGraphicsPlatform()
	// oracle state
	px, py := 0.0, 1000.0
	pen := zzDefStyle()
	var want []zzShape
	want = append(want, zzShape{kind: "rect", geo: []float64{0, 0}, text: "100%x100%", style: zzStyle{fill: "white", stroke: "white", linecap: "round", width: 1}, own: true})
	for s := 0; s < S; s++ {
		zzC19Cmd(rt, &px, &py, &pen, &want)
	}
	zzC19Compare(rt, want)
	zzReach("history-ok")
	zzWitness("end")
}

// ZZC19Step: T commands from an arbitrary pen state (any fill, stroke, width,
// line cap, dash and cursor, with or without a shape still waiting to be
// flushed): one inductive step covers style histories of any length.
func ZZC19Step() {
	T := zzParam("T", 2)
	rt := NewGraphicsPlatform()
	cols := []string{"black", "red", "", "blue"}
	nc := zzParam("COLS", 3)
	fill, stroke := cols[zzChoice("fill0", nc)], cols[zzChoice("stroke0", nc)]
	w0 := zzFloat64("width0")
	linecap, dash := "round", ""
	if zzParam("FULL", 0) == 1 {
		linecap = []string{"round", "butt"}[zzChoice("cap0", 2)]
		dash = []string{"", "10 20"}[zzChoice("dash0", 2)]
	}
	x0, y0 := zzFloat64("x0"), zzFloat64("y0")
	rt.Push() // the initial clear is flushed under the default pen
	rt.attr = Attr{Fill: fill, Stroke: stroke, StrokeWidth: &w0, StrokeLinecap: linecap, StrokeDashArray: dash}
	rt.x, rt.y = x0, y0
	px, py := x0, y0
	pen := zzStyle{fill: fill, stroke: stroke, linecap: linecap, dash: dash, width: w0}
	var want []zzShape
	want = append(want, zzShape{kind: "rect", geo: []float64{0, 0}, text: "100%x100%", style: zzStyle{fill: "white", stroke: "white", linecap: "round", width: 1}, own: true})
	if zzChoice("pending", 2) == 1 {
		r := zzFloat64("r0")
		rt.Circle(r)
		want = append(want, zzShape{kind: "circle", geo: []float64{px, py, 10 * r}, style: pen})
	}
	for s := 0; s < T; s++ {
		zzC19Cmd(rt, &px, &py, &pen, &want)
	}
	zzC19Compare(rt, want)
	zzReach("step-ok")
	zzWitness("end")
}

// ZZC19Font: font properties reach the text element as documented.
func ZZC19Font() {
	rt := NewGraphicsPlatform()
	base := []string{"top", "middle", "bottom", "alphabetic"}[zzChoice("baseline", 4)]
	align := []string{"left", "center", "right"}[zzChoice("align", 3)]
	size := zzFloat64("size")
	rt.Font(map[string]any{"baseline": base, "align": align, "size": size})
	rt.Text("t")
	rt.Push()
	got := zzFlatten(rt)
	zzAssert(len(got) == 2 && got[1].kind == "text", "C19 font: one text shape")
	if len(got) != 2 {
		return
	}
	wantBase := map[string]string{"top": "hanging", "middle": "middle", "bottom": "ideographic", "alphabetic": ""}[base]
	wantAnchor := map[string]string{"left": "", "center": "middle", "right": "end"}[align]
	el := rt.SVG.Elements[len(rt.SVG.Elements)-1].(*Text)
	zzAssert(el.TextAttr.Baseline == wantBase, "C19 font: baseline maps to the SVG dominant-baseline keyword")
	zzAssert(el.TextAttr.TextAnchor == wantAnchor, "C19 font: align maps to the SVG text-anchor keyword")
	if size != 6 {
		zzAssert(el.TextAttr.FontSize != nil && zzSameBits(*el.TextAttr.FontSize, 10*size), "C19 font: size scaled by ten")
	}
	zzWitness("end")
}

// ZZC19Gridn: gridn terminates and draws the documented lines for units of
// at least U (the evaluator rejects units <= 0; see the evaluator harness).
func ZZC19Gridn() {
	U := zzParam("U", 100)
	unit := zzFloat64("unit")
	zzAssume(unit >= float64(U))
	rt := NewGraphicsPlatform()
	rt.Gridn(unit, "red")
	g, ok := rt.elements[len(rt.elements)-1].(*Group)
	zzAssert(ok, "C19 gridn: one group")
	if !ok {
		return
	}
	zzAssert(len(g.Elements)%2 == 0 && len(g.Elements) >= 2, "C19 gridn: pairs of lines")
	zzAssert(len(g.Elements) <= 2*(1000/(10*U)+1), "C19 gridn: no more lines than fit the canvas")
	zzAssert(g.Attr.Stroke == "red", "C19 gridn: grid colour")
	zzWitness("end")
}
