//go:build verif

package parser

import (
	"strings"

	"evylang.dev/evy/pkg/lexer"
)

// C03 (parser) — parsing is total and every diagnostic is located.
//
// Inputs: every prefix, token deletion, token duplication, token replacement
// and token insertion of a corpus of valid programs that covers every
// statement and expression form ("what a learner produces while typing").

func zzBuiltins() Builtins {
	anyVar := &Var{Name: "a", T: ANY_TYPE}
	return Builtins{
		Funcs: map[string]*FuncDefStmt{
			"print": {Name: "print", VariadicParam: anyVar, ReturnType: NONE_TYPE},
			"len":   {Name: "len", Params: []*Var{{Name: "a", T: ANY_TYPE}}, ReturnType: NUM_TYPE},
			"has":   {Name: "has", Params: []*Var{{Name: "m", T: GENERIC_MAP}, {Name: "k", T: STRING_TYPE}}, ReturnType: BOOL_TYPE},
			"cls":   {Name: "cls", ReturnType: NONE_TYPE},
		},
		EventHandlers: map[string]*EventHandlerStmt{
			"key":  {Name: "key", Params: []*Var{{Name: "k", T: STRING_TYPE}}},
			"down": {Name: "down", Params: []*Var{{Name: "x", T: NUM_TYPE}, {Name: "y", T: NUM_TYPE}}},
		},
		Globals: map[string]*Var{"err": {Name: "err", T: BOOL_TYPE}},
	}
}

var zzCorpus = []string{
	"x := 1\nprint x\n",
	"func f:num n:num m:num\n    return n + m * 2\nend\nprint (f 1 2)\n",
	"func g a:any...\n    print (len a)\nend\ng 1 \"s\" true\n",
	"func f\n    return\nend\nf\n",
	"on key k:string\n    print k\nend\n",
	"on down\n    cls\nend\n",
	"x:num\ny:[]string\nz:{}any\nx = 2\ny = [\"a\"]\nz.k = x\nprint x y z\n",
	"if true\n    print 1\nelse if false\n    print 2\nelse\n    print 3\nend\n",
	"i := 0\nwhile i < 3\n    i = i + 1\n    if i == 2\n        break\n    end\nend\n",
	"for i := range 1 10 2\n    print i\nend\nfor range 2\n    cls\nend\n",
	"for c := range \"abc\"\n    print c\nend\nfor k := range {a:1}\n    print k\nend\n",
	"a := [1 2 3]\nb := a[1:]\nc := a[-1]\na[0] = c\nprint a b (len a)\n",
	"m := {a:1 b:[1 2]}\nv:any\nv = m.a\nn := v.(num)\nprint n m[\"b\"] (has m \"a\")\n",
	"a := [\n    1 // one\n    2\n]\nm := {\n    k: 1\n}\nprint a m\n",
	"s := \"a\" + \"b\"\nt := s[0] + s[1:]\nb := !(s == t) and -1 < 2 or err\nprint s t b // c\n",
	"x := [[1] []]\ny := [] + [1]\nz := {}\nprint x y z\n",
	"on key k:string\n    print k[0] k[1:] (len k) k+\"x\"\n    for c := range k\n        print c\n    end\nend\n",
	"func h:num a:[]num m:{}num s:string\n    return a[0] + m.k + (len s) + (len a[1:])\nend\nprint (h [1] {k:2} \"s\")\n",
	// every declared name (loop variables, parameters, variables) is used where its type is read: operand, index, argument, range
	"for i := range 3\n    print i+1 [1 2 3][i] -i (len [i])\n    for j := range i\n        print i*j\n    end\nend\n",
	"for e := range [1 2]\n    print e+1\nend\nfor c := range \"ab\"\n    print c+\"x\" c[0]\nend\nfor k := range {a:1}\n    print k+\"y\"\nend\n",
	"func f:num n:num s:string\n    m := n * 2\n    t := s + \"!\"\n    return m + (len t)\nend\nx := f 1 \"a\"\nprint x+1 [x][0]\n",
}

var zzInserts = []string{"true", "i", "func", "1.2.3", "[]", "{}num", "foo", "\"", "#", "(", ")", "[", "]", "{", "}", ":", ":=", "=", ".", "...", "-", "!", "end", "on", "if", "else", "for", "range", "while", "return", "break", "num", "any", "x", "nope", "1", "\"s\"", "\n", " ", "//c", "and", "_", "string", "[1]", "{a:1}"}

// zzNIns: the quick tier uses the first INS fragments, the thorough tier all.
func zzNIns() int {
	n := zzParam("INS", len(zzInserts))
	if n > len(zzInserts) {
		n = len(zzInserts)
	}
	return n
}

type zzTokSpan struct{ start, end int }

// zzSpans tokenises src with the real lexer and returns the rune spans of its tokens.
func zzSpans(src string) []zzTokSpan {
	rs := []rune(src)
	l := lexer.New(src)
	var spans []zzTokSpan
	var prev *lexer.Token
	for tok := l.Next(); ; tok = l.Next() {
		if prev != nil {
			spans = append(spans, zzTokSpan{prev.Offset, tok.Offset})
		}
		if tok.Type == lexer.EOF {
			break
		}
		prev = tok
	}
	_ = rs
	return spans
}

func zzLineCol(rs []rune, off int) (int, int) {
	line, col := 1, 1
	for k := 0; k < off && k < len(rs); k++ {
		if rs[k] == '\n' {
			line++
			col = 1
		} else {
			col++
		}
	}
	return line, col
}

func zzEdit(src string, which string) string {
	rs := []rune(src)
	spans := zzSpans(src)
	switch which {
	case "truncate":
		n := zzChoice("at", len(rs)+1)
		return string(rs[:n])
	case "delete":
		k := zzChoice("tok", len(spans))
		return string(rs[:spans[k].start]) + string(rs[spans[k].end:])
	case "duplicate":
		k := zzChoice("tok", len(spans))
		return string(rs[:spans[k].end]) + string(rs[spans[k].start:])
	case "replace":
		k := zzChoice("tok", len(spans))
		ins := zzInserts[zzChoice("ins", zzNIns())]
		return string(rs[:spans[k].start]) + ins + string(rs[spans[k].end:])
	case "insert":
		k := zzChoice("tok", len(spans)+1)
		ins := zzInserts[zzChoice("ins", zzNIns())]
		at := len(rs)
		if k < len(spans) {
			at = spans[k].start
		}
		return string(rs[:at]) + ins + string(rs[at:])
	}
	return src
}

// zzCheckParse: Parse terminates without a host panic (the engine reports
// any), returns a program xor a non-empty error list, and every error is
// located inside the input at the position its token really has.
func zzCheckParse(src, what string) {
	prog, err := Parse(src, zzBuiltins())
	zzAssert((prog != nil) != (err != nil), "C03 parser: returns either a program or errors ("+what+")")
	if err == nil {
		zzReach("accepted")
		return
	}
	zzReach("rejected")
	errs, ok := err.(Errors)
	zzAssert(ok && len(errs) > 0, "C03 parser: the error is a non-empty list of located errors")
	if !ok {
		return
	}
	rs := []rune(src)
	for _, e := range errs {
		zzAssert(e.message != "" && e.token != nil, "C03 parser: every error has a message and a token")
		if e.token == nil {
			continue
		}
		t := e.token
		zzAssert(t.Offset >= 0 && t.Offset <= len(rs), "C03 parser: error offset inside the input")
		line, col := zzLineCol(rs, t.Offset)
		if !(t.Line == line && t.Col == col) {
			zzLog("position mismatch for " + e.Error() + " in:\n" + src)
		}
		zzAssert(t.Line == line && t.Col == col, "C03 parser: error line/column exist in the input and point at the token")
		zzAssert(strings.HasPrefix(e.Error(), t.Location()+": "), "C03 parser: error text starts with its location")
	}
}

func ZZC03Parser() {
	E := zzParam("E", 1)
	src := zzCorpus[zzChoice("base", len(zzCorpus))]
	kinds := []string{"none", "truncate", "delete", "duplicate", "replace", "insert"}
	what := ""
	for e := 0; e < E; e++ {
		k := kinds[zzChoice("edit", len(kinds))]
		if k == "none" && e > 0 {
			zzAssume(false)
		}
		what += k + " "
		src = zzEdit(src, k)
		if len(zzSpans(src)) == 0 {
			break
		}
	}
	if !zzSymbolic() {
		zzLog("input:\n" + src) // native replay: show the failing input
	}
	zzCheckParse(src, what)
	zzWitness("end")
}

// zzLexemes: the alphabet of the token-sequence harness. Every keyword, every
// bracket and operator class, a declared variable of array type (so that
// index, slice and dot expressions reach the type checker), an undeclared
// name, a function, an event name, literals, a comment and the newline.
var zzLexemes = []string{
	"x", "\n", "1", ":=", "[", "]", "(", ")", "func", "end", "if", "=", ":", "num", "\"s\"", ".", "-", "for", "range", "on",
	"{", "}", "print", "+", "else", "while", "return", "break", "!", "==", "and", "[]", "...", "//c", "any", "key", "y", "<", "{}", "f", "_", "*", "or", "true",
}

// ZZC03Tokens: every sequence of up to L lexemes of the alphabet, each glued
// to its predecessor or separated by one blank (the parser is whitespace
// sensitive), after a preamble that declares the names the lexemes use.
func ZZC03Tokens() {
	L := zzParam("L", 3)
	A := zzParam("A", len(zzLexemes))
	if A > len(zzLexemes) {
		A = len(zzLexemes)
	}
	pre := []string{"", "x := [1]\nfunc f:num a:num\n    return a\nend\n"}[zzChoice("pre", 2)]
	n := 1 + zzChoice("len", L)
	src := pre
	what := ""
	for k := 0; k < n; k++ {
		lx := zzLexemes[zzChoice("lx", A)]
		if k > 0 && lx != "\n" && zzChoice("glue", 2) == 0 {
			src += " "
		}
		src += lx
		what += lx + " "
	}
	if zzChoice("nl", 2) == 1 {
		src += "\n"
	}
	if !zzSymbolic() {
		zzLog("input:\n" + src)
	}
	zzCheckParse(src, "tokens")
	zzWitness("end")
}

// ZZC03Locate: one culprit (an unknown variable, or a call that has no value)
// at each position of an otherwise valid list — array elements, map values,
// call arguments, operands, statements of a block — in a one-line and in a
// multi-line layout with comments and blank lines. The first reported error
// points exactly at the culprit's first character.
func ZZC03Locate() {
	K := zzParam("K", 3)
	n := 2 + zzChoice("n", K-1)
	k := zzChoice("pos", n)
	culprits := []string{"nosuch", "(cls)"}
	ci := zzChoice("culprit", len(culprits))
	cul := culprits[ci]
	ctx := zzChoice("ctx", 6)
	multi := zzChoice("multi", 2) == 1
	items := make([]string, n)
	for i := range items {
		items[i] = string(rune('1' + i))
	}
	sep, open, close := " ", "", ""
	if multi {
		sep = " // c\n\n    // own line\n    "
	}
	var pre, post string
	switch ctx {
	case 0: // array literal
		pre, post = "x := [", "]\nprint x\n"
		if multi {
			open, close = "\n    ", "\n"
		}
	case 1: // map literal
		for i := range items {
			items[i] = string(rune('a'+i)) + ":" + items[i]
		}
		cul = "q:" + cul
		pre, post = "x := {", "}\nprint x\n"
		if multi {
			open, close = "\n    ", "\n"
		}
	case 2: // call arguments (one line only: an argument list ends at the line end)
		if multi {
			zzAssume(false)
		}
		pre, post = "print ", "\n"
	case 3: // operands
		if multi || ci == 1 {
			zzAssume(false)
		}
		sep = " + "
		pre, post = "x := ", "\nprint x\n"
	case 4: // statements of a block
		if ci == 1 {
			zzAssume(false) // `(cls)` is not a statement form
		}
		for i := range items {
			items[i] = "print " + items[i]
		}
		cul = "print " + cul
		sep = "\n    "
		if multi {
			sep = " // c\n\n    // own line\n    "
		}
		pre, post = "if true\n    ", "\nend\n"
	case 5: // nested literal inside a call inside a block
		pre, post = "while false\n    print (len [", "])\nend\n"
		if multi {
			open, close = "\n        ", "\n    "
			sep = " // c\n        "
		}
	}
	items[k] = cul
	src := pre + open
	want := -1
	for i, it := range items {
		if i > 0 {
			src += sep
		}
		if i == k {
			want = len([]rune(src))
			if ctx == 1 {
				want += 2 // the value after `q:`
			}
			if ctx == 4 {
				want += len("print ")
			}
		}
		src += it
	}
	src += close + post
	_, err := Parse(src, zzBuiltins())
	errs, ok := err.(Errors)
	zzAssert(err != nil && ok && len(errs) > 0, "C03 locate: a program with a culprit is rejected with located errors")
	if !ok || len(errs) == 0 {
		zzLog("accepted:\n" + src)
		return
	}
	first := errs[0]
	line, col := zzLineCol([]rune(src), want)
	if first.token.Offset != want {
		zzLog("C03 locate: first error " + first.Error() + " but the culprit is at line " + string(rune('0'+line)) + " column " + string(rune('0'+col%10)) + " in:\n" + src)
	}
	zzAssert(first.token.Offset == want && first.token.Line == line && first.token.Col == col, "C03 locate: the first error points at the right character (the culprit), wherever it sits in the list")
	zzReach("locate-ok")
	zzWitness("end")
}
