//go:build verif

package evaluator

import (
	"math"
	"strconv"
	"strings"
)

// C01 — expressions evaluate as the language definition prescribes.
//
// A small expression tree is generated from symbolic selectors, rendered to
// source text (minimal or full parenthesisation, spaced or tight layout),
// parsed and evaluated by the real code, and compared with a reference
// evaluation of the generator's own tree on the same symbolic leaf values.

type zzE struct {
	kind string // var | un | bin | call | index | cmp | scmp | acmp
	op   string
	l, r *zzE
	t    byte // n b s
	name string
}

var zzPrec = map[string]int{"or": 1, "and": 2, "==": 3, "!=": 3, "<": 4, "<=": 4, ">": 4, ">=": 4, "+": 5, "-": 5, "*": 6, "/": 6, "%": 6}

func zzGenNum(d int) *zzE {
	n := 2 // leaves: a variable, or a printing call of a variable (side effect: order and count of evaluation are observable)
	if d > 0 {
		n = 5
	}
	if d == 0 && zzChoice("numleaf", 2) == 1 {
		return &zzE{kind: "call", t: 'n', name: "f", r: &zzE{kind: "var", t: 'n', name: []string{"n0", "n1"}[zzChoice("nv", 2)]}}
	}
	if d == 0 {
		n = 1
	}
	switch zzChoice("num", n) {
	case 0:
		return &zzE{kind: "var", t: 'n', name: []string{"n0", "n1"}[zzChoice("nv", 2)]}
	case 1:
		op := []string{"+", "-", "*", "/", "%"}[zzChoice("nop", 5)]
		return &zzE{kind: "bin", t: 'n', op: op, l: zzGenNum(d - 1), r: zzGenNum(d - 1)}
	case 2:
		return &zzE{kind: "un", t: 'n', op: "-", r: zzGenNum(d - 1)}
	case 3:
		return &zzE{kind: "call", t: 'n', name: "f", r: zzGenNum(d - 1)}
	default:
		return &zzE{kind: "index", t: 'n', name: "arr", op: "-1"}
	}
}

func zzGenBool(d int) *zzE {
	n := 1
	if d > 0 {
		n = 6
	}
	if d == 0 && zzChoice("boolleaf", 2) == 1 {
		return &zzE{kind: "call", t: 'b', name: "g", r: &zzE{kind: "var", t: 'b', name: []string{"b0", "b1"}[zzChoice("bv", 2)]}}
	}
	switch zzChoice("bool", n) {
	case 0:
		return &zzE{kind: "var", t: 'b', name: []string{"b0", "b1"}[zzChoice("bv", 2)]}
	case 1:
		op := []string{"<", "<=", ">", ">=", "==", "!="}[zzChoice("cop", 6)]
		return &zzE{kind: "cmp", t: 'b', op: op, l: zzGenNum(d - 1), r: zzGenNum(d - 1)}
	case 2:
		op := []string{"and", "or"}[zzChoice("lop", 2)]
		return &zzE{kind: "bin", t: 'b', op: op, l: zzGenBool(d - 1), r: zzGenBool(d - 1)}
	case 3:
		return &zzE{kind: "un", t: 'b', op: "!", r: zzGenBool(d - 1)}
	case 4:
		return &zzE{kind: "call", t: 'b', name: "g", r: zzGenBool(d - 1)}
	default:
		op := []string{"<", "<=", ">", ">=", "==", "!="}[zzChoice("sop", 6)]
		return &zzE{kind: "scmp", t: 'b', op: op, l: zzGenStr(d - 1), r: zzGenStr(d - 1)}
	}
}

func zzGenStr(d int) *zzE {
	n := 1
	if d > 0 {
		n = 2
	}
	switch zzChoice("str", n) {
	case 0:
		return &zzE{kind: "var", t: 's', name: []string{"s1", "s2"}[zzChoice("sv", 2)]}
	default:
		return &zzE{kind: "bin", t: 's', op: "+", l: zzGenStr(d - 1), r: zzGenStr(d - 1)}
	}
}

func (e *zzE) prec() int {
	switch e.kind {
	case "bin", "cmp", "scmp", "bcmp":
		return zzPrec[e.op]
	case "un":
		return 7
	}
	return 9
}

// render: full = parenthesise every operator application; tight = no
// whitespace around binary operators (as required inside argument lists).
func (e *zzE) isOp() bool {
	return e.kind == "bin" || e.kind == "cmp" || e.kind == "scmp" || e.kind == "bcmp" || e.kind == "un"
}

func (e *zzE) render(full, tight bool) string {
	sp := " "
	if tight {
		sp = ""
	}
	// a child that needs (or, in full mode, simply gets) parentheses; inside a
	// group whitespace is free again
	wrap := func(c *zzE, need bool) string {
		if (need || full) && c.isOp() {
			return "(" + c.render(full, false) + ")"
		}
		return c.render(full, tight)
	}
	switch e.kind {
	case "var":
		return e.name
	case "index":
		return e.name + "[" + e.op + "]"
	case "call":
		// arguments are whitespace separated: the argument itself is tight
		if full && e.r.isOp() {
			return "(" + e.name + " (" + e.r.render(full, false) + "))"
		}
		return "(" + e.name + " " + e.r.render(full, true) + ")"
	case "un":
		return e.op + wrap(e.r, e.r.prec() < 7)
	}
	if tight && (e.op == "and" || e.op == "or") {
		return "(" + e.render(full, false) + ")" // keyword operators need spaces, so a group
	}
	p := e.prec()
	l := wrap(e.l, e.l.prec() < p)
	r := wrap(e.r, e.r.prec() <= p)
	if e.op == "and" || e.op == "or" {
		return l + " " + e.op + " " + r
	}
	return l + sp + e.op + sp + r
}

type zzEnv struct {
	n     map[string]float64
	b     map[string]bool
	s     map[string]string
	arr   []float64
	trace string
}

func (e *zzE) evalNum(env *zzEnv) float64 {
	switch e.kind {
	case "var":
		return env.n[e.name]
	case "un":
		return -e.r.evalNum(env)
	case "call":
		v := e.r.evalNum(env)
		env.trace += "print:f " + zzN(v) + "\n|"
		return v
	case "index":
		switch e.op {
		case "0":
			return env.arr[0]
		case "1":
			return env.arr[1]
		}
		return env.arr[len(env.arr)-1]
	}
	l := e.l.evalNum(env)
	r := e.r.evalNum(env)
	switch e.op {
	case "+":
		return l + r
	case "-":
		return l - r
	case "*":
		return l * r
	case "/":
		return l / r
	}
	return math.Mod(l, r)
}

func (e *zzE) evalStr(env *zzEnv) string {
	if e.kind == "var" {
		return env.s[e.name]
	}
	return e.l.evalStr(env) + e.r.evalStr(env)
}

func (e *zzE) evalBool(env *zzEnv) bool {
	switch e.kind {
	case "var":
		return env.b[e.name]
	case "un":
		return !e.r.evalBool(env)
	case "call":
		v := e.r.evalBool(env)
		env.trace += "print:g " + strconv.FormatBool(v) + "\n|"
		return v
	case "bcmp":
		l := e.l.evalBool(env)
		r := e.r.evalBool(env)
		if e.op == "==" {
			return l == r
		}
		return l != r
	case "cmp":
		l := e.l.evalNum(env)
		r := e.r.evalNum(env)
		switch e.op {
		case "<":
			return l < r
		case "<=":
			return l <= r
		case ">":
			return l > r
		case ">=":
			return l >= r
		case "==":
			return l == r
		}
		return l != r
	case "scmp":
		l := e.l.evalStr(env)
		r := e.r.evalStr(env)
		switch e.op {
		case "<":
			return l < r
		case "<=":
			return l <= r
		case ">":
			return l > r
		case ">=":
			return l >= r
		case "==":
			return l == r
		}
		return l != r
	}
	l := e.l.evalBool(env)
	if e.op == "and" {
		if !l {
			return false // short circuit: right operand not evaluated
		}
		return e.r.evalBool(env)
	}
	if l {
		return true
	}
	return e.r.evalBool(env)
}

const zzC01Prelude = "n0 := 1\nn1 := 2\nn2 := 3\nb0 := true\nb1 := false\ns0 := \"\"\ns1 := \"añ\"\ns2 := \"b\"\narr := [n0 n1 n2]\n" +
	"func f:num n:num\n    print \"f\" n\n    return n\nend\nfunc g:bool v:bool\n    print \"g\" v\n    return v\nend\n"

// ZZC01Expr: one expression of the chosen type.
func ZZC01Expr() {
	D := zzParam("D", 2)
	ty := zzChoice("type", 3)
	var e *zzE
	switch ty {
	case 0:
		e = zzGenNum(D)
	case 1:
		e = zzGenBool(D)
	default:
		e = zzGenStr(D)
	}
	zzC01Check(e, ty)
}

var zzAllOps = []string{"+", "-", "*", "/", "%", "<", "<=", ">", ">=", "==", "!=", "and", "or"}

func zzLeaf(t byte, k int) *zzE {
	switch t {
	case 'n':
		return &zzE{kind: "var", t: 'n', name: []string{"n0", "n1", "n2"}[k]}
	case 'b':
		return &zzE{kind: "var", t: 'b', name: []string{"b0", "b1", "b0"}[k]}
	}
	return &zzE{kind: "var", t: 's', name: []string{"s1", "s2", "s0"}[k]}
}

// zzMkBin builds `l op r` for operand type ot ('n','b','s'); ok=false when
// the operator is not defined on that type.
func zzMkBin(op string, ot byte, l, r *zzE) (*zzE, bool) {
	switch op {
	case "+":
		if ot == 'n' || ot == 's' {
			return &zzE{kind: "bin", t: ot, op: op, l: l, r: r}, true
		}
	case "-", "*", "/", "%":
		if ot == 'n' {
			return &zzE{kind: "bin", t: 'n', op: op, l: l, r: r}, true
		}
	case "<", "<=", ">", ">=":
		if ot == 'n' {
			return &zzE{kind: "cmp", t: 'b', op: op, l: l, r: r}, true
		}
		if ot == 's' {
			return &zzE{kind: "scmp", t: 'b', op: op, l: l, r: r}, true
		}
	case "==", "!=":
		if ot == 'n' {
			return &zzE{kind: "cmp", t: 'b', op: op, l: l, r: r}, true
		}
		if ot == 's' {
			return &zzE{kind: "scmp", t: 'b', op: op, l: l, r: r}, true
		}
		if ot == 'b' {
			return &zzE{kind: "bcmp", t: 'b', op: op, l: l, r: r}, true
		}
	case "and", "or":
		if ot == 'b' {
			return &zzE{kind: "bin", t: 'b', op: op, l: l, r: r}, true
		}
	}
	return nil, false
}

// ZZC01Pairs: the precedence x associativity interaction matrix: every pair
// of binary operators in both nestings, (a op1 b) op2 c and a op2 (b op1 c),
// on every operand type for which the combination is well typed.
func ZZC01Pairs() {
	op1 := zzAllOps[zzChoice("op1", len(zzAllOps))]
	op2 := zzAllOps[zzChoice("op2", len(zzAllOps))]
	innerLeft := zzChoice("nest", 2) == 0
	it := []byte{'n', 'b', 's'}[zzChoice("innertype", 3)]
	var inner *zzE
	var ok bool
	if innerLeft {
		inner, ok = zzMkBin(op1, it, zzLeaf(it, 0), zzLeaf(it, 1))
	} else {
		inner, ok = zzMkBin(op1, it, zzLeaf(it, 1), zzLeaf(it, 2))
	}
	if !ok {
		zzAssume(false)
	}
	var e *zzE
	if innerLeft {
		e, ok = zzMkBin(op2, inner.t, inner, zzLeaf(inner.t, 2))
	} else {
		e, ok = zzMkBin(op2, inner.t, zzLeaf(inner.t, 0), inner)
	}
	if !ok {
		zzAssume(false)
	}
	ty := map[byte]int{'n': 0, 'b': 1, 's': 2}[e.t]
	zzReach("pair")
	zzC01Check(e, ty)
}

func zzC01Check(e *zzE, ty int) {
	full := zzChoice("parens", 2) == 1
	form := zzChoice("form", 2) // 0: `r := <spaced>` then print; 1: `print <tight>` (argument position)
	src := zzC01Prelude
	if form == 0 {
		src += "r := " + e.render(full, false) + "\nprint \"r\" r\n"
	} else {
		src += "print \"r\" " + e.render(full, true) + "\n"
	}
	src += "print n0 n1 n2 b0 b1 s0 s1 s2 arr\n"
	p := &zzPlat{}
	ev := NewEvaluator(p)
	prog := zzMustParse(ev, src, "C01")
	if prog == nil {
		return
	}
	env := &zzEnv{n: map[string]float64{}, b: map[string]bool{}, s: map[string]string{"s0": "", "s1": "añ", "s2": "b"}}
	for k, name := range []string{"n0", "n1", "n2"} {
		v := zzFloat64("n")
		zzSetNum(prog, k, v)
		env.n[name] = v
		env.arr = append(env.arr, v)
	}
	for k, name := range []string{"b0", "b1"} {
		v := zzBool("b")
		zzSetBool(prog, 3+k, v)
		env.b[name] = v
	}
	err := ev.Eval(prog)
	zzAssert(err == nil, "C01: well-typed expression evaluates without error")
	if err != nil {
		return
	}
	var rs string
	switch ty {
	case 0:
		rs = zzN(e.evalNum(env))
	case 1:
		rs = strconv.FormatBool(e.evalBool(env))
	default:
		rs = e.evalStr(env)
	}
	want := env.trace + "print:r " + rs + "\n|print:" + zzN(env.n["n0"]) + " " + zzN(env.n["n1"]) + " " + zzN(env.n["n2"]) + " " +
		strconv.FormatBool(env.b["b0"]) + " " + strconv.FormatBool(env.b["b1"]) + "  añ b [" + zzN(env.n["n0"]) + " " + zzN(env.n["n1"]) + " " + zzN(env.n["n2"]) + "]\n"
	zzAssert(p.out() == want, "C01: value, evaluation order and short-circuiting are those of the definition, whatever the layout")
	zzReach("expr-ok")
	zzWitness("end")
}

// ZZC01Lists: operands of lists are evaluated left to right: call arguments,
// array elements and map literal values (under every Go map order).
func ZZC01Lists() {
	N := zzParam("N", 3)
	kind := zzChoice("kind", 4)
	src := "func f:num n:num\n    print \"f\" n\n    return n\nend\nfunc h:num a:num b:num c:num\n    return a * 100 + b * 10 + c\nend\n"
	want := ""
	for k := 1; k <= N; k++ {
		want += "print:f " + strconv.Itoa(k) + "\n|"
	}
	switch kind {
	case 0:
		src += "x := ["
		for k := 1; k <= N; k++ {
			src += "(f " + strconv.Itoa(k) + ") "
		}
		src += "]\nprint x\n"
		want += "print:["
		for k := 1; k <= N; k++ {
			if k > 1 {
				want += " "
			}
			want += strconv.Itoa(k)
		}
		want += "]\n"
	case 1:
		src += "x := {"
		for k := 1; k <= N; k++ {
			src += string(rune('a'+N-k)) + ":(f " + strconv.Itoa(k) + ") "
		}
		src += "}\nprint x\n"
		want += "print:{"
		for k := 1; k <= N; k++ {
			if k > 1 {
				want += " "
			}
			want += string(rune('a'+N-k)) + ":" + strconv.Itoa(k)
		}
		want += "}\n"
	case 2:
		src += "x := h (f 1) (f 2) (f 3)\nprint x\n"
		want = "print:f 1\n|print:f 2\n|print:f 3\n|print:123\n"
	case 3:
		src += "x := (f 1) - (f 2) * (f 3)\nprint x\n"
		want = "print:f 1\n|print:f 2\n|print:f 3\n|print:-5\n"
	}
	p := &zzPlat{}
	ev := NewEvaluator(p)
	prog := zzMustParse(ev, src, "C01 lists")
	if prog == nil {
		return
	}
	zzMapOrder(true) // every Go map order during evaluation
	err := ev.Eval(prog)
	zzMapOrder(false)
	zzAssert(err == nil, "C01 lists: program runs")
	zzAssert(p.out() == want, "C01 lists: call arguments, literal elements and operands are evaluated left to right")
	zzReach("lists-ok")
	zzWitness("end")
}

// ZZC01Args: whitespace separates arguments: a postfix expression (index,
// slice, dot, type assertion, group, call) followed by whitespace and an
// argument that starts with `-`, `!`, `[`, `(` or `{` is two arguments, for
// every such pair.
func ZZC01Args() {
	firsts := []struct{ src, out string }{
		{"arr[0]", "1"}, {"arr[1:]", "[2 3]"}, {"arr[:2]", "[1 2]"}, {"arr[:]", "[1 2 3]"}, {"s[1:]", "bc"}, {"s[0]", "a"},
		{"m.k", "5"}, {"m[\"k\"]", "5"}, {"v.(num)", "7"}, {"(n)", "4"}, {"(len arr)", "3"}, {"n", "4"}, {"[1 2][1:]", "[2]"}, {"nested[0][1:]", "[9]"},
	}
	seconds := []struct{ src, out string }{
		{"-1", "-1"}, {"-n", "-4"}, {"!b", "false"}, {"[4]", "[4]"}, {"[]", "[]"}, {"(n)", "4"}, {"{}", "{}"}, {"\"x\"", "x"}, {"arr[-1]", "3"},
	}
	f := firsts[zzChoice("first", len(firsts))]
	g := seconds[zzChoice("second", len(seconds))]
	src := "arr := [1 2 3]\ns := \"abc\"\nm := {k:5}\nv:any\nv = 7\nn := 4\nb := true\nnested := [[8 9]]\n" +
		"print " + f.src + " " + g.src + "\nprint \"keep\" arr s m v n b nested\n"
	p := &zzPlat{}
	ev := NewEvaluator(p)
	err := ev.Run(src)
	if err != nil {
		zzLog("C01 args: " + f.src + " " + g.src + ": " + err.Error())
	}
	zzAssert(err == nil, "C01 args: a postfix expression followed by whitespace and another argument is accepted")
	if err == nil && len(p.trace) > 0 {
		zzAssert(p.trace[0] == "print:"+f.out+" "+g.out+"\n", "C01 args: whitespace separates the two arguments, whatever postfix form the first one has")
	}
	zzReach("args-ok")
	zzWitness("end")
}

// ZZC01Effects: elements of one argument list / array literal / map literal
// that read state which later elements of the same list change — the global
// err and errmsg (updated in place by conversions) and an ordinary global
// changed by a called function. Each element denotes the value the state had
// when its turn came (left-to-right evaluation).
func ZZC01Effects() {
	N := zzParam("NE", 3)
	n := 2 + zzChoice("n", N-1)
	kinds := []string{"err", "(str2num \"x\")", "(str2num \"1\")", "g", "(bump)", "errmsg", "(str2bool \"zz\")", "(iserr)"}
	errv, g := false, 10.0
	msg := ""
	var parts, wants []string
	for i := 0; i < n; i++ {
		k := zzChoice("elem", len(kinds))
		parts = append(parts, kinds[k])
		switch k {
		case 0, 7:
			wants = append(wants, strconv.FormatBool(errv))
		case 1:
			errv, msg = true, "str2num: cannot parse \"x\""
			wants = append(wants, "0")
		case 2:
			errv, msg = false, ""
			wants = append(wants, "1")
		case 3:
			wants = append(wants, zzN(g))
		case 4:
			g++
			wants = append(wants, zzN(g))
		case 5:
			wants = append(wants, msg)
		case 6:
			errv, msg = true, "str2bool: cannot parse \"zz\""
			wants = append(wants, "false")
		}
	}
	pre := "g := 10\nfunc bump:num\n    g = g + 1\n    return g\nend\nfunc iserr:bool\n    return err\nend\nfunc show a:any b:any c:any\n    print a b c\nend\n"
	ctx := zzChoice("ctx", 4)
	var src, want string
	list := strings.Join(parts, " ")
	switch ctx {
	case 0: // arguments of a variadic built-in
		src = pre + "print " + list + "\n"
		want = "print:" + strings.Join(wants, " ") + "\n"
	case 1: // array literal
		src = pre + "a := [" + list + "]\nprint a\n"
		want = "print:[" + strings.Join(wants, " ") + "]\n"
	case 2: // map literal values
		var kv, kw []string
		for i := range parts {
			kv = append(kv, "k"+strconv.Itoa(i)+":"+parts[i])
			kw = append(kw, "k"+strconv.Itoa(i)+":"+wants[i])
		}
		src = pre + "m := {" + strings.Join(kv, " ") + "}\nprint m\n"
		want = "print:{" + strings.Join(kw, " ") + "}\n"
	case 3: // arguments of a user function with three parameters
		if len(parts) > 3 {
			zzAssume(false)
		}
		for len(parts) < 3 {
			parts = append(parts, "0")
			wants = append(wants, "0")
		}
		src = pre + "show " + strings.Join(parts, " ") + "\n"
		want = "print:" + strings.Join(wants, " ") + "\n"
	}
	p := &zzPlat{}
	ev := NewEvaluator(p)
	prog := zzMustParse(ev, src, "C01 effects")
	if prog == nil {
		return
	}
	err := ev.Eval(prog)
	zzAssert(err == nil, "C01 effects: program runs")
	if p.out() != want {
		zzLog("C01 effects: " + src + "want " + want + "got  " + p.out())
	}
	zzAssert(p.out() == want, "C01 effects: every element of a list denotes the value the program state had when its turn came, left to right")
	zzReach("effects-ok")
	zzWitness("end")
}

// ---- what print / sprint / repr write for nested values ----

type zzPV struct {
	kind string // num str bool arr map
	f    float64
	s    string
	b    bool
	el   []*zzPV
	keys []string
}

func zzPVGen(depth, maxDepth int, a, b float64) *zzPV {
	kinds := []string{"numa", "numb", "str", "bool"}
	if depth < maxDepth {
		kinds = append(kinds, "arr", "map", "empty")
	}
	switch kinds[zzChoice("pv", len(kinds))] {
	case "numa":
		return &zzPV{kind: "num", f: a}
	case "numb":
		return &zzPV{kind: "num", f: b}
	case "str":
		return &zzPV{kind: "str", s: []string{"", "x y", "q\"t", "ñ"}[zzChoice("pvs", 4)]}
	case "bool":
		return &zzPV{kind: "bool", b: zzChoice("pvb", 2) == 1}
	case "empty":
		if zzChoice("pve", 2) == 0 {
			return &zzPV{kind: "arr"}
		}
		return &zzPV{kind: "map"}
	case "arr":
		v := &zzPV{kind: "arr"}
		for i, n := 0, 1+zzChoice("pvn", zzParam("PN", 2)); i < n; i++ {
			v.el = append(v.el, zzPVGen(depth+1, maxDepth, a, b))
		}
		return v
	}
	v := &zzPV{kind: "map"}
	keys := []string{"k", "long_key"}
	for i, n := 0, 1+zzChoice("pvn", zzParam("PN", 2)); i < n; i++ {
		v.keys = append(v.keys, keys[i])
		v.el = append(v.el, zzPVGen(depth+1, maxDepth, a, b))
	}
	return v
}

// lit: Evy source of the value; numbers are the variables a and b.
func (v *zzPV) lit(a float64) string {
	switch v.kind {
	case "num":
		if zzSameBits(v.f, a) {
			return "a"
		}
		return "b"
	case "str":
		return strconv.Quote(v.s)
	case "bool":
		return strconv.FormatBool(v.b)
	case "arr":
		parts := []string{}
		for _, e := range v.el {
			parts = append(parts, e.lit(a))
		}
		return "[" + strings.Join(parts, " ") + "]"
	}
	parts := []string{}
	for i, e := range v.el {
		parts = append(parts, v.keys[i]+":"+e.lit(a))
	}
	return "{" + strings.Join(parts, " ") + "}"
}

func (v *zzPV) hasNum() bool {
	if v.kind == "num" {
		return true
	}
	for _, e := range v.el {
		if e.hasNum() {
			return true
		}
	}
	return false
}

func (v *zzPV) str(repr bool) string {
	switch v.kind {
	case "num":
		return zzN(v.f)
	case "str":
		if repr {
			return strconv.Quote(v.s)
		}
		return v.s
	case "bool":
		return strconv.FormatBool(v.b)
	case "arr":
		parts := []string{}
		for _, e := range v.el {
			parts = append(parts, e.str(repr))
		}
		return "[" + strings.Join(parts, " ") + "]"
	}
	parts := []string{}
	for i, e := range v.el {
		parts = append(parts, v.keys[i]+":"+e.str(repr))
	}
	return "{" + strings.Join(parts, " ") + "}"
}

// ZZC01Print: print, sprint, string concatenation with sprint, printf %v and
// repr of every value tree up to depth PD over symbolic numbers, strings
// (empty, with blank, with quote, non-ASCII), bools, arrays and maps: the
// text is the one docs/builtins.md prescribes (strings bare in print, quoted
// in repr; elements separated by one blank; maps in insertion order).
func ZZC01Print() {
	a, b := zzFloat64("a"), zzFloat64("b")
	zzAssume(!zzSameBits(a, b))
	v := zzPVGen(0, zzParam("PD", 2), a, b)
	w := zzPVGen(1, 1, a, b) // a second, flat value: separation of arguments
	ctx := zzChoice("pctx", 5)
	var stmt, want string
	switch ctx {
	case 0:
		stmt = "print " + v.lit(a) + " " + w.lit(a) + "\n"
		want = "print:" + v.str(false) + " " + w.str(false) + "\n"
	case 1:
		stmt = "s := sprint " + v.lit(a) + " " + w.lit(a) + "\nprint \"<\"+s+\">\"\n"
		want = "print:<" + v.str(false) + " " + w.str(false) + ">\n"
	case 2:
		if v.hasNum() || w.hasNum() {
			zzAssume(false) // %v of a number follows Go's %v (exponent notation for large values): C13's subject
		}
		stmt = "printf \"%v|%v\\n\" " + v.lit(a) + " " + w.lit(a) + "\n"
		want = "print:" + v.str(false) + "|" + w.str(false) + "\n"
	case 3:
		stmt = "print (repr " + v.lit(a) + ") (repr " + w.lit(a) + ")\n"
		want = "print:" + v.str(true) + " " + w.str(true) + "\n"
	case 4:
		stmt = "x:any\nx = " + v.lit(a) + "\nprint x [x] {k:x}\n"
		want = "print:" + v.str(false) + " [" + v.str(false) + "] {k:" + v.str(false) + "}\n"
	}
	src := "a := 1\nb := 2\n" + stmt + "print a b\n"
	p := &zzPlat{}
	ev := NewEvaluator(p)
	prog := zzMustParse(ev, src, "C01 print")
	if prog == nil {
		return
	}
	zzSetNum(prog, 0, a)
	zzSetNum(prog, 1, b)
	err := ev.Eval(prog)
	zzAssert(err == nil, "C01 print: program runs")
	if err != nil {
		return
	}
	got := p.trace[0]
	if got != want {
		zzLog("C01 print: " + stmt + " want " + want + " got " + got)
	}
	zzAssert(got == want, "C01 print: what the program prints for a nested value is exactly what the definition says")
	zzReach("print-ok")
	zzWitness("end")
}

// ---- == and != on nested arrays and maps ----

func (v *zzPV) clone() *zzPV {
	c := *v
	c.el = nil
	for _, e := range v.el {
		c.el = append(c.el, e.clone())
	}
	c.keys = append([]string{}, v.keys...)
	return &c
}

// reverseMaps: the same value with the pairs of every map written in the opposite order.
func (v *zzPV) reverseMaps() {
	for _, e := range v.el {
		e.reverseMaps()
	}
	if v.kind == "map" {
		for i, j := 0, len(v.el)-1; i < j; i, j = i+1, j-1 {
			v.el[i], v.el[j] = v.el[j], v.el[i]
			v.keys[i], v.keys[j] = v.keys[j], v.keys[i]
		}
	}
}

// changeLeaf replaces the n-th leaf by another value of the same kind; reports whether there was one.
func (v *zzPV) changeLeaf(n *int, a, b float64) bool {
	switch v.kind {
	case "num", "str", "bool":
		if *n > 0 {
			*n--
			return false
		}
		switch v.kind {
		case "num":
			if zzSameBits(v.f, a) {
				v.f = b
			} else {
				v.f = a
			}
		case "str":
			v.s += "!"
		case "bool":
			v.b = !v.b
		}
		return true
	}
	for _, e := range v.el {
		if e.changeLeaf(n, a, b) {
			return true
		}
	}
	return false
}

// zzPVEqual: deep equality; maps compare as sets of pairs, numbers by ==.
func zzPVEqual(v, w *zzPV) bool {
	if v.kind != w.kind || len(v.el) != len(w.el) {
		return false
	}
	switch v.kind {
	case "num":
		return v.f == w.f
	case "str":
		return v.s == w.s
	case "bool":
		return v.b == w.b
	case "arr":
		for i := range v.el {
			if !zzPVEqual(v.el[i], w.el[i]) {
				return false
			}
		}
		return true
	}
	for i, k := range v.keys {
		found := false
		for j, k2 := range w.keys {
			if k == k2 {
				found = true
				if !zzPVEqual(v.el[i], w.el[j]) {
					return false
				}
			}
		}
		if !found {
			return false
		}
	}
	return true
}

// ZZC01Equal: == and != on every value tree up to depth ED against the same
// tree, the tree with every map written in the opposite order, and the tree
// with one leaf changed: equality is deep, ignores the order of map pairs and
// compares numbers by value.
func ZZC01Equal() {
	a, b := zzFloat64("a"), zzFloat64("b")
	zzAssume(!zzSameBits(a, b))
	v := zzPVGen(0, zzParam("ED", 2), a, b)
	if v.kind != "arr" && v.kind != "map" {
		zzAssume(false)
	}
	w := v.clone()
	switch zzChoice("variant", 3) {
	case 1:
		w.reverseMaps()
	case 2:
		n := zzChoice("leaf", 3)
		if !w.changeLeaf(&n, a, b) {
			zzAssume(false)
		}
		if zzChoice("alsoreverse", 2) == 1 {
			w.reverseMaps()
		}
	}
	src := "a := 1\nb := 2\nx := " + v.lit(a) + "\ny := " + w.lit(a) + "\nprint (x == y) (x != y) (y == x) ([x] == [y])\nprint a b\n"
	p := &zzPlat{}
	ev := NewEvaluator(p)
	prog := zzMustParse(ev, src, "C01 equal")
	if prog == nil {
		return
	}
	zzSetNum(prog, 0, a)
	zzSetNum(prog, 1, b)
	err := ev.Eval(prog)
	zzAssert(err == nil, "C01 equal: program runs")
	if err != nil {
		return
	}
	eq := zzPVEqual(v, w)
	want := "print:" + strconv.FormatBool(eq) + " " + strconv.FormatBool(!eq) + " " + strconv.FormatBool(eq) + " " + strconv.FormatBool(eq) + "\n"
	if p.trace[0] != want {
		zzLog("C01 equal: " + src + "want " + want + "got " + p.trace[0])
	}
	zzAssert(p.trace[0] == want, "C01 equal: == on arrays and maps is deep, ignores the order of map pairs and is symmetric")
	zzReach("equal-ok")
	zzWitness("end")
}
