//go:build verif

package evaluator

import (
	"strconv"
	"strings"
)

// C15 — events run their handlers in order, isolated, on shared globals.
//
// Oracle: the same evaluator on the twin program in which every handler is
// a procedure with the same body and the event sequence is a sequence of
// calls (self-differential), plus explicit expected traces.

type zzEvKind struct {
	name   string
	params string   // full parameter list
	names  []string // parameter names
	types  []string // "num" | "string"
}

var zzEvKinds = []zzEvKind{
	{"key", "k:string", []string{"k"}, []string{"string"}},
	{"down", "x:num y:num", []string{"x", "y"}, []string{"num", "num"}},
	{"up", "x:num y:num", []string{"x", "y"}, []string{"num", "num"}},
	{"move", "x:num y:num", []string{"x", "y"}, []string{"num", "num"}},
	{"animate", "t:num", []string{"t"}, []string{"num"}},
	{"input", "id:string val:string", []string{"id", "val"}, []string{"string", "string"}},
}

var zzEvStrings = []string{"", "a", "ñ", "Enter"}

// handler body: uses the payload (if named), a local, and the shared global
func zzHandlerBody(ek zzEvKind, form int) string {
	b := "    loc := cnt * 10\n    cnt = cnt + 1\n"
	b += "    print \"" + ek.name + "\" loc"
	for j, n := range ek.names {
		if zzNamed(ek, form, j) {
			b += " " + n
		}
	}
	b += "\n"
	if ek.types[0] == "num" && zzNamed(ek, form, 0) {
		b += "    sum = sum + " + ek.names[0] + "\n"
	}
	return b
}

// zzNamed: is parameter j named (bound) under the signature form?
func zzNamed(ek zzEvKind, form, j int) bool {
	switch form {
	case 0:
		return true
	case 3: // `_` for the first parameter, the rest named
		return j > 0
	case 4: // the last parameter is `_`
		return j < len(ek.types)-1
	}
	return false
}

func zzParamList(ek zzEvKind, form int) string {
	if form == 1 {
		return ""
	}
	s := ""
	for j, t := range ek.types {
		if zzNamed(ek, form, j) {
			s += " " + ek.names[j] + ":" + t
		} else {
			s += " _:" + t
		}
	}
	return s
}

// ZZC15Events: arbitrary event sequence against a program with a symbolic
// subset of handlers and handler signatures; numeric payloads symbolic.
func ZZC15Events() {
	E := zzParam("E", 2)
	H := zzParam("H", 2) // event kinds used (first H of the table rotated by a choice)
	rot := zzChoice("rot", len(zzEvKinds))
	kinds := make([]zzEvKind, H)
	forms := make([]int, H)
	for i := 0; i < H; i++ {
		kinds[i] = zzEvKinds[(rot+i)%len(zzEvKinds)]
		forms[i] = zzChoice("form", 7)
	}
	// forms 5 and 6: an anonymous or named parameter with the wrong type: the parser must reject the handler
	for i, ek := range kinds {
		if forms[i] < 5 {
			continue
		}
		wrong := map[string]string{"num": "string", "string": "num"}[ek.types[0]]
		name := "_"
		if forms[i] == 6 {
			name = ek.names[0]
		}
		bad := "on " + ek.name + " " + name + ":" + wrong
		for j := 1; j < len(ek.types); j++ {
			bad += " " + ek.names[j] + ":" + ek.types[j]
		}
		use := ""
		for j := 1; j < len(ek.types); j++ {
			use += " " + ek.names[j]
		}
		if forms[i] == 6 {
			use += " " + name
		}
		bad += "\n    print 1" + use + "\nend\n"
		berr := NewEvaluator(&zzPlat{}).Run(bad)
		if berr == nil {
			zzLog("C15 accepted: " + bad)
		}
		zzAssert(berr != nil, "C15: a handler whose parameter types do not match the event's payload (also for `_`) is rejected")
		zzReach("bad-signature")
		zzWitness("end-bad")
		return
	}
	// globals named like the handlers' parameters: a parameter shadows them, it never overwrites them
	src := "for range 3\n    if true\n        break\n    end\nend\ncnt := 0\nsum := 0\nk := \"gk\"\nx := 100\ny := 200\nt := 300\nid := \"gid\"\nval := \"gval\"\nprint \"top\" cnt sum\nprint k x y t id val\n"
	twin := src
	for i, ek := range kinds {
		body := zzHandlerBody(ek, forms[i])
		src += "on " + ek.name + zzParamList(ek, forms[i]) + "\n" + body + "end\n"
		// twin: a procedure with the full, named parameter list
		tb := body
		twin += "func h" + ek.name + " " + ek.params + "\n" + tb
		if true { // parameters must be used in a func: mention them harmlessly
			for _, n := range ek.names {
				twin += "    if " + n + " == " + n + "\n    end\n"
			}
		}
		twin += "end\n"
	}

	p := &zzPlat{}
	ev := NewEvaluator(p)
	err := ev.Run(src)
	zzAssert(err == nil, "C15: program with handlers is accepted and its top-level code runs")
	if err != nil {
		zzLog(src + err.Error())
		return
	}
	zzAssert(len(ev.EventHandlerNames) == H, "C15: every declared handler is registered")

	cnt, sum := 0.0, 0.0
	want := "print:top 0 0\n|print:gk 100 200 300 gid gval\n"
	calls := ""
	for e := 0; e < E; e++ {
		hi := zzChoice("ev", H)
		ek := kinds[hi]
		var params []any
		line := "print:" + ek.name + " " + zzN(cnt*10)
		calls += "h" + ek.name
		first := 0.0
		for j, t := range ek.types {
			if t == "num" {
				f := zzFloat64("payload")
				params = append(params, f)
				if j == 0 {
					first = f
				}
				if zzNamed(ek, forms[hi], j) {
					line += " " + zzN(f)
				}
				calls += " (0+" + "pl" + strconv.Itoa(e) + strconv.Itoa(j) + ")"
			} else {
				s := zzEvStrings[zzChoice("str", len(zzEvStrings))]
				params = append(params, s)
				if zzNamed(ek, forms[hi], j) {
					line += " " + s
				}
				calls += " " + strconv.Quote(s)
			}
		}
		calls += "\n"
		err := ev.HandleEvent(Event{Name: ek.name, Params: params})
		zzAssert(err == nil, "C15: handler runs without error")
		cnt++
		if zzNamed(ek, forms[hi], 0) && ek.types[0] == "num" {
			sum = sum + first
		}
		want += "|" + line + "\n"
		zzAssert(p.out() == want, "C15: each event runs its handler exactly once, payload bound to the declared parameters, locals fresh, globals shared")
		zzAssert(zzGlobalNum(ev, "cnt") == cnt, "C15: global updated by every handler run")
		zzAssert(zzSameNum(zzGlobalNum(ev, "sum"), sum), "C15: global accumulates the numeric payloads in order")
		_, leaked := ev.global.get("loc")
		zzAssert(!leaked, "C15: handler locals do not leak into the global scope")
		gs := ""
		for _, n := range []string{"k", "x", "y", "t", "id", "val"} {
			v, _ := ev.global.get(n)
			gs += v.String() + " "
		}
		zzAssert(gs == "gk 100 200 300 gid gval ", "C15: a handler parameter shadows a global of the same name, the payload never overwrites it")
	}
	zzReach("events-ok")
	zzWitness("end")
}

// ZZC15Scopes: the handler body is a generated block (shadowing declarations
// with a probe of the enclosing x before and after, loops, break, return);
// N events of the same kind must behave like N calls of the procedure with
// the same body: fresh locals on every event, globals shared.
func ZZC15Scopes() {
	N := zzParam("NE", 2)
	cfg := &zzGenCfg{maxDepth: zzParam("SD", 2), lens: []int{2, zzParam("SL", 2), 1, 1}}
	ctr := 0
	body := zzGenBlock(cfg, 1, false, true, &ctr) // a function-like body at depth 1 (may declare a local x)
	var sb strings.Builder
	sb.WriteString("x := 1\nc0 := true\nc1 := false\nprint \"top\" x c0 c1\non animate t:num\n    print \"ev\" t\n")
	zzRenderBlock(&sb, body, 1, zzLayout{})
	sb.WriteString("end\n")
	p := &zzPlat{}
	ev := NewEvaluator(p)
	prog := zzMustParse(ev, sb.String(), "C15 scopes")
	if prog == nil {
		return
	}
	x, c0, c1 := zzFloat64("x"), zzBool("c0"), zzBool("c1")
	zzSetNum(prog, 0, x)
	zzSetBool(prog, 1, c0)
	zzSetBool(prog, 2, c1)
	err := ev.Eval(prog)
	zzAssert(err == nil, "C15 scopes: top-level code runs")
	// reference: N calls of the procedure with that body
	g := map[string]*float64{}
	xv := x
	g["x"] = &xv
	r := &zzRef{global: g, scopes: []map[string]*float64{g}, c0: c0, c1: c1, fn: body}
	r.out("top " + zzN(x) + " " + strconv.FormatBool(c0) + " " + strconv.FormatBool(c1))
	for k := 0; k < N; k++ {
		herr := ev.HandleEvent(Event{Name: "animate", Params: []any{float64(k)}})
		zzAssert(herr == nil, "C15 scopes: handler runs")
		r.out("ev " + strconv.Itoa(k))
		r.stmt(&zzSt{kind: "call"})
		zzAssert(p.out() == strings.Join(r.trace, "|"), "C15 scopes: every event runs the handler in a fresh local scope on the shared globals, like a procedure call")
	}
	zzReach("scopes-ok")
	zzWitness("end")
}
