//go:build verif

package evaluator

import "strconv"

// C15 — events run their handlers in order, isolated, on shared globals.
//
// Oracle: the same evaluator on the twin program in which every handler is
// a procedure with the same body and the event sequence is a sequence of
// calls (self-differential), plus explicit expected traces.

type zzEvKind struct {
	name   string
	params string   // full parameter list
	names  []string // parameter names
	types  []string // "num" | "string"
}

var zzEvKinds = []zzEvKind{
	{"key", "k:string", []string{"k"}, []string{"string"}},
	{"down", "x:num y:num", []string{"x", "y"}, []string{"num", "num"}},
	{"up", "x:num y:num", []string{"x", "y"}, []string{"num", "num"}},
	{"move", "x:num y:num", []string{"x", "y"}, []string{"num", "num"}},
	{"animate", "t:num", []string{"t"}, []string{"num"}},
	{"input", "id:string val:string", []string{"id", "val"}, []string{"string", "string"}},
}

var zzEvStrings = []string{"", "a", "ñ", "Enter"}

// handler body: uses the payload (if named), a local, and the shared global
func zzHandlerBody(ek zzEvKind, form int) string {
	b := "    loc := cnt * 10\n    cnt = cnt + 1\n"
	switch form {
	case 0: // full parameter list
		b += "    print \"" + ek.name + "\" loc"
		for _, n := range ek.names {
			b += " " + n
		}
		b += "\n"
		if ek.types[0] == "num" {
			b += "    sum = sum + " + ek.names[0] + "\n"
		}
	default: // empty list or `_` parameters: the payload is ignored
		b += "    print \"" + ek.name + "\" loc\n"
	}
	return b
}

func zzParamList(ek zzEvKind, form int) string {
	switch form {
	case 0:
		return " " + ek.params
	case 1:
		return ""
	}
	s := ""
	for _, t := range ek.types {
		s += " _:" + t
	}
	return s
}

// ZZC15Events: arbitrary event sequence against a program with a symbolic
// subset of handlers and handler signatures; numeric payloads symbolic.
func ZZC15Events() {
	E := zzParam("E", 2)
	H := zzParam("H", 2) // event kinds used (first H of the table rotated by a choice)
	rot := zzChoice("rot", len(zzEvKinds))
	kinds := make([]zzEvKind, H)
	forms := make([]int, H)
	for i := 0; i < H; i++ {
		kinds[i] = zzEvKinds[(rot+i)%len(zzEvKinds)]
		forms[i] = zzChoice("form", 3)
	}
	src := "cnt := 0\nsum := 0\nprint \"top\" cnt sum\n"
	twin := src
	for i, ek := range kinds {
		body := zzHandlerBody(ek, forms[i])
		src += "on " + ek.name + zzParamList(ek, forms[i]) + "\n" + body + "end\n"
		// twin: a procedure with the full, named parameter list
		tb := body
		twin += "func h" + ek.name + " " + ek.params + "\n" + tb
		if forms[i] != 0 { // parameters must be used in a func: mention them harmlessly
			for _, n := range ek.names {
				twin += "    if " + n + " == " + n + "\n    end\n"
			}
		}
		twin += "end\n"
	}

	p := &zzPlat{}
	ev := NewEvaluator(p)
	err := ev.Run(src)
	zzAssert(err == nil, "C15: program with handlers is accepted and its top-level code runs")
	if err != nil {
		zzLog(src + err.Error())
		return
	}
	zzAssert(len(ev.EventHandlerNames) == H, "C15: every declared handler is registered")

	cnt, sum := 0.0, 0.0
	want := "print:top 0 0\n"
	calls := ""
	for e := 0; e < E; e++ {
		hi := zzChoice("ev", H)
		ek := kinds[hi]
		var params []any
		line := "print:" + ek.name + " " + zzN(cnt*10)
		calls += "h" + ek.name
		first := 0.0
		for j, t := range ek.types {
			if t == "num" {
				f := zzFloat64("payload")
				params = append(params, f)
				if j == 0 {
					first = f
				}
				if forms[hi] == 0 {
					line += " " + zzN(f)
				}
				calls += " (0+" + "pl" + strconv.Itoa(e) + strconv.Itoa(j) + ")"
			} else {
				s := zzEvStrings[zzChoice("str", len(zzEvStrings))]
				params = append(params, s)
				if forms[hi] == 0 {
					line += " " + s
				}
				calls += " " + strconv.Quote(s)
			}
		}
		calls += "\n"
		err := ev.HandleEvent(Event{Name: ek.name, Params: params})
		zzAssert(err == nil, "C15: handler runs without error")
		cnt++
		if forms[hi] == 0 && ek.types[0] == "num" {
			sum = sum + first
		}
		want += "|" + line + "\n"
		zzAssert(p.out() == want, "C15: each event runs its handler exactly once, payload bound to the declared parameters, locals fresh, globals shared")
		zzAssert(zzGlobalNum(ev, "cnt") == cnt, "C15: global updated by every handler run")
		zzAssert(zzSameNum(zzGlobalNum(ev, "sum"), sum), "C15: global accumulates the numeric payloads in order")
		_, leaked := ev.global.get("loc")
		zzAssert(!leaked, "C15: handler locals do not leak into the global scope")
	}
	zzReach("events-ok")
	zzWitness("end")
}
