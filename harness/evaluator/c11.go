//go:build verif

package evaluator

import (
	"errors"
	"strconv"
	"strings"
)

// C11 — index and slice laws for arrays and strings.
//
// Symbolic: index i / slice bounds a, b as unconstrained float64 (NaN, ±Inf,
// −0, huge, fractional), length n in [0,N], string code points.
// Oracle: the law in the property text written with plain float comparisons.

// zzIsInt: f is finite with integral value representable as int64 without
// the implementation-defined conversion region (|f| < 2^63).
func zzInConvRange(f float64) bool {
	return f >= -9223372036854775808.0 && f < 9223372036854775808.0
}

func zzIsIntegral(f float64) bool {
	// within the conversion range, integral iff float64(int64(f)) == f
	return zzInConvRange(f) && float64(int64(f)) == f
}

func zzMkArray(n int) (*arrayVal, []value) {
	elems := make([]value, n)
	ids := make([]value, n)
	for k := 0; k < n; k++ {
		v := &numVal{V: float64(100 + k)}
		elems[k] = v
		ids[k] = v
	}
	return &arrayVal{Elements: &elems}, ids
}

// ZZC11ArrayIndex: a[i] read and a[i] = v write, for every float64 i.
func ZZC11ArrayIndex() {
	N := zzParam("N", 4)
	n := zzChoice("n", N+1)
	f := zzFloat64("i")
	a, ids := zzMkArray(n)
	want, ok := zzSpecIndex(f, n)

	got, err := a.Index(&numVal{V: f})
	zzAssert((err == nil) == ok, "C11 array index: succeeds exactly when i is an integer with -n<=i<n")
	if err == nil {
		zzReach("index-ok")
		zzAssert(got == ids[want], "C11 array index: element at position i (from the end for negative i)")
	} else {
		zzReach("index-err")
		zzAssert(errors.Is(err, ErrPanic), "C11 array index: failure is an Evy run-time panic")
		if zzInConvRange(f) {
			if zzIsIntegral(f) {
				zzAssert(errors.Is(err, ErrBounds), "C11 array index: integer outside [-n,n) is ErrBounds")
			} else {
				zzAssert(errors.Is(err, ErrIndexValue), "C11 array index: non-integer is ErrIndexValue")
			}
		} else {
			// NaN, ±Inf, |i| >= 2^63: Go's conversion is implementation-defined; either class accepted
			zzReach("index-conv-undefined")
			zzAssert(errors.Is(err, ErrIndexValue) || errors.Is(err, ErrBounds), "C11 array index: huge/NaN index is ErrIndexValue or ErrBounds")
		}
	}

	// assignment through the same index
	nv := &numVal{V: 7}
	err2 := a.SetIndex(&numVal{V: f}, nv)
	zzAssert((err2 == nil) == ok, "C11 array assign: succeeds exactly when i is an integer with -n<=i<n")
	for k := 0; k < n; k++ {
		if err2 == nil && k == want {
			zzAssert((*a.Elements)[k] == value(nv), "C11 array assign: stores at position i")
		} else {
			zzAssert((*a.Elements)[k] == ids[k], "C11 array assign: other elements / failed assignment change nothing")
		}
	}
	zzAssert(len(*a.Elements) == n, "C11 array assign: length unchanged")
	zzWitness("end")
}

// ZZC11ArraySlice: a[lo:hi] with each bound symbolic or omitted.
func ZZC11ArraySlice() {
	N := zzParam("N", 3)
	n := zzChoice("n", N+1)
	form := zzChoice("form", 4) // 0 a[lo:hi] 1 a[:hi] 2 a[lo:] 3 a[:]
	a, ids := zzMkArray(n)
	var lo, hi value
	wantLo, wantHi, ok := 0, n, true
	if form == 0 || form == 2 {
		f := zzFloat64("lo")
		lo = &numVal{V: f}
		p, o := zzSpecBound(f, n)
		wantLo, ok = p, ok && o
	}
	if form == 0 || form == 1 {
		f := zzFloat64("hi")
		hi = &numVal{V: f}
		p, o := zzSpecBound(f, n)
		wantHi, ok = p, ok && o
	}
	boundsOK := ok
	if ok && wantLo > wantHi {
		ok = false
	}
	got, err := a.Slice(lo, hi)
	zzAssert((err == nil) == ok, "C11 array slice: succeeds exactly when 0<=a<=b<=n after normalising")
	if err != nil {
		zzReach("slice-err")
		zzAssert(errors.Is(err, ErrPanic), "C11 array slice: failure is an Evy run-time panic")
		if boundsOK {
			zzAssert(errors.Is(err, ErrSlice), "C11 array slice: a>b is ErrSlice")
		}
		zzWitness("end-err")
		return
	}
	zzReach("slice-ok")
	s := got.(*arrayVal)
	zzAssert(len(*s.Elements) == wantHi-wantLo, "C11 array slice: exactly b-a elements")
	for k := wantLo; k < wantHi; k++ {
		e := (*s.Elements)[k-wantLo].(*numVal)
		zzAssert(e.V == float64(100+k), "C11 array slice: elements a..b-1 in order")
		zzAssert(value(e) != ids[k], "C11 array slice: basic elements are copied")
	}
	// fresh container: mutating the slice leaves the source unchanged
	if len(*s.Elements) > 0 {
		(*s.Elements)[0] = &numVal{V: -1}
	}
	for k := 0; k < n; k++ {
		zzAssert((*a.Elements)[k] == ids[k], "C11 array slice: fresh container (source untouched)")
	}
	zzWitness("end")
}

// ZZC11StringIndex: s[i] on a string with symbolic code points.
func ZZC11StringIndex() {
	N := zzParam("N", 3)
	n := zzChoice("n", N+1)
	rs := zzSymRunes(n)
	f := zzFloat64("i")
	s := &stringVal{V: string(rs), runeSlice: rs}
	want, ok := zzSpecIndex(f, n)
	got, err := s.Index(&numVal{V: f})
	zzAssert((err == nil) == ok, "C11 string index: succeeds exactly when i is an integer with -n<=i<n (n in code points)")
	if err == nil {
		zzReach("sindex-ok")
		zzAssert(got.(*stringVal).V == string(rs[want]), "C11 string index: the code point at position i")
	} else {
		zzReach("sindex-err")
		zzAssert(errors.Is(err, ErrPanic), "C11 string index: failure is an Evy run-time panic")
	}
	zzWitness("end")
}

// ZZC11StringSlice: s[lo:hi] on a string with symbolic code points.
func ZZC11StringSlice() {
	N := zzParam("N", 3)
	n := zzChoice("n", N+1)
	rs := zzSymRunes(n)
	s := &stringVal{V: string(rs), runeSlice: rs}
	flo, fhi := zzFloat64("lo"), zzFloat64("hi")
	plo, ok1 := zzSpecBound(flo, n)
	phi, ok2 := zzSpecBound(fhi, n)
	ok := ok1 && ok2 && plo <= phi
	got, err := s.Slice(&numVal{V: flo}, &numVal{V: fhi})
	zzAssert((err == nil) == ok, "C11 string slice: succeeds exactly when 0<=a<=b<=n after normalising")
	if err == nil {
		zzReach("sslice-ok")
		zzAssert(got.(*stringVal).V == string(rs[plo:phi]), "C11 string slice: code points a..b-1")
	} else {
		zzReach("sslice-err")
		zzAssert(errors.Is(err, ErrPanic), "C11 string slice: failure is an Evy run-time panic")
		if ok1 && ok2 {
			zzAssert(errors.Is(err, ErrSlice), "C11 string slice: a>b is ErrSlice")
		}
	}
	zzWitness("end")
}

// ZZC11Errmsg: errmsg is the one string that is updated in place (by the
// conversion built-ins). After any history of conversions and reads, its
// index / slice / len / range behave like those of a fresh string with the
// same text (in code points).
func ZZC11Errmsg() {
	H := zzParam("HE", 2)
	inputs := []string{"zz", "1", "ñ☺", ""}
	src := "n := 0\n"
	want := ""
	cur := ""
	for k := 0; k < H; k++ {
		in := inputs[zzChoice("input", len(inputs))]
		src += "n = str2num " + strconv.Quote(in) + "\n"
		if _, err := strconv.ParseFloat(in, 64); err != nil {
			cur = "str2num: cannot parse " + strconv.Quote(in)
		} else {
			cur = ""
		}
		rs := []rune(cur)
		switch zzChoice("read", 5) {
		case 0: // no read between the conversions
		case 1:
			src += "print \"len\" (len errmsg)\n"
			want += "print:len " + strconv.Itoa(len(rs)) + "\n|"
		case 2:
			src += "print \"all\" errmsg[:]\n"
			want += "print:all " + cur + "\n|"
		case 3:
			src += "c := 0\nfor ch := range errmsg\n    if ch != \"\"\n        c = c + 1\n    end\nend\nprint \"count\" c\n"
			want += "print:count " + strconv.Itoa(len(rs)) + "\n|"
			src = strings.Replace(src, "c := 0", "c"+strconv.Itoa(k)+" := 0", 1)
			src = strings.ReplaceAll(src, " c = c + 1", " c"+strconv.Itoa(k)+" = c"+strconv.Itoa(k)+" + 1")
			src = strings.ReplaceAll(src, "\"count\" c\n", "\"count\" c"+strconv.Itoa(k)+"\n")
		case 4:
			if len(rs) > 0 {
				src += "print \"last\" errmsg[-1] errmsg[1:3]\n"
				want += "print:last " + string(rs[len(rs)-1]) + " " + string(rs[1:3]) + "\n|"
			} else {
				src += "print \"empty\" (errmsg == \"\")\n"
				want += "print:empty true\n|"
			}
		}
	}
	src += "print \"end\" (len errmsg) errmsg[:] n\n"
	want += "print:end " + strconv.Itoa(len([]rune(cur))) + " " + cur + " "
	p := &zzPlat{}
	ev := NewEvaluator(p)
	err := ev.Run(src)
	if err != nil {
		zzLog(src + err.Error())
	}
	zzAssert(err == nil, "C11 errmsg: history runs")
	got := p.out()
	if !strings.HasPrefix(got, want) {
		zzLog("C11 errmsg mismatch:\n" + src + "got:  " + got + "\nwant: " + want)
	}
	zzAssert(strings.HasPrefix(got, want), "C11 errmsg: index, slice, len and range of the in-place updated errmsg follow its current text")
	zzReach("errmsg-ok")
	zzWitness("end")
}
