//go:build verif

package evaluator

import (
	"math/rand"

	"evylang.dev/evy/pkg/parser"
)

// C08 — parsing, formatting and running are deterministic.
//
// Every `range` over a Go map executed in evy code (maps of up to four
// entries) picks its next key through a choice point, so all iteration orders
// are explored. The pipeline runs once under every order and once under a
// fixed order; parse
// errors (text and order), formatted text, the platform trace and the final
// result must be identical.

var zzC08Progs = []string{
	// 0: several unused variables in one scope: diagnostics in a fixed order
	"a := 1\nb := 2\nc := 3\n",
	// 1: unused variables in nested scopes and a function
	"func f\n    p := 1\n    q := 2\nend\nif true\n    r := 1\n    s := 2\nend\nf\n",
	// 2: map literal whose value types need combining (variable + literals)
	"x := [1]\nm := {a:[1] b:x c:[\"a\"]}\nprint (typeof m)\n",
	// 3: map literal values with side effects
	"func f:num n:num\n    print \"f\" n\n    return n\nend\nm := {c:(f 1) b:(f 2) a:(f 3)}\nprint m\n",
	// 4: font with several invalid properties: which one is reported
	"font {foo:1 bar:2 baz:3}\n",
	// 5: font with several valid properties
	"font {size:3 family:\"x\" weight:700}\ntext \"t\"\n",
	// 6: printing, comparing and ranging maps
	"m := {z:1 y:2}\nn := {y:2 z:1}\nprint m (m == n)\nfor k := range m\n    print k\nend\n",
	// 7: several handlers
	"on key k:string\n    print k\nend\non down x:num y:num\n    print x y\nend\non up\n    print 1\nend\nprint \"top\"\n",
	// 8: several different parse errors
	"a := 1\nb := nosuch\nc := 1 +\nprint d\nmove 1\n",
	// 9: test with maps (sameMap) and nested composites
	"test {a:1 b:2} {b:2 a:1}\n",
	// 10: multi-line map literal formatting
	"m := {\n  b: 1 // one\n  a: 2\n}\nprint m\ndel m \"b\"\nm.d = 4\nprint m (has m \"a\") (len m)\n",
	// 12: unused parameters on one line, unused variables around them
	"u := 1\nfunc f a:num b:num c:num\n    d := 1\nend\nfunc g p:string q:string\n    print 1\nend\nf 1 2 3\ng \"a\" \"b\"\n",
	// 13: printf with every verb over composite and basic values
	"a := [1 2]\nm := {k:a}\nv:any\nv = a\nprintf \"%d %t %f %q %x %5s|%v %s\\n\" a m a m v a m a\nprintf \"%d %t %5.2f %q %x %v %s\\n\" 1 true 2 \"s\" 255 v \"t\"\nprint (sprintf \"%d|%f|%e|%g|%c|%U|%p\" a m v a m a m)\n",
	// 14: string conversion and joining of nested composites
	"m := {b:[{z:1 y:2}] a:[]}\nprint (sprint m) (sprintf \"%v\" m) (join [1 2] \",\")\ns := sprint [m m]\nprint s (len s)\n",
	// 15-17: every operation that builds a map from another map: repetition (deep copy), also inside any and nested
	"row := [{c:1 a:2 b:3}] * 2\nprint row\nfor k := range row[1]\n    print k\nend\nrow[0].z = 0\nprint row\n",
	"m:any\nm = {c:1 b:2 a:3}\nrep := [m] * 2\nprint rep\ntest rep[0] rep[1]\n",
	"grid := [[{q:[1] p:[2] o:[3]}]] * 2\nprint grid (grid[0] == grid[1])\nfor k := range grid[1][0]\n    print k grid[1][0][k]\nend\n",
	// 11: mixed-type map literal inside array, typeof
	"x := {p:1}\narr := [{a:1 b:\"s\"} {c:x}]\nprint (typeof arr)\n",
}

type zzOutcome struct {
	errs, fmted, trace, result string
}

func zzPipeline(src string, b parser.Builtins, allOrders bool) zzOutcome {
	var o zzOutcome
	p := &zzPlat{}
	ev := NewEvaluator(p)
	zzMapOrder(allOrders)
	prog, err := parser.Parse(src, b)
	if err != nil {
		o.errs = err.Error()
		zzMapOrder(false)
		return o
	}
	o.fmted = prog.Format()
	rerr := ev.Eval(prog)
	zzMapOrder(false)
	if rerr != nil {
		o.result = rerr.Error()
	}
	o.trace = p.out()
	return o
}

func ZZC08Orders() {
	pi := zzChoice("prog", len(zzC08Progs))
	if only := zzParam("PROG", -1); only >= 0 && only != pi {
		zzAssume(false)
	}
	src := zzC08Progs[pi]
	// one built-in global instead of three keeps the number of explored orders small
	b := builtinsDeclsFromBuiltins(newBuiltins(&zzPlat{}))
	b.Globals = map[string]*parser.Var{"err": b.Globals["err"]}
	o1 := zzPipeline(src, b, true)  // every iteration order
	o2 := zzPipeline(src, b, false) // one fixed order: all orders agree iff each agrees with it
	if o1.errs != o2.errs {
		zzLog("C08 parse errors differ:\n" + o1.errs + "\n---\n" + o2.errs)
	}
	zzAssert(o1.errs == o2.errs, "C08: parse errors (text and order) do not depend on map iteration order")
	zzAssert(o1.fmted == o2.fmted, "C08: formatted text does not depend on map iteration order")
	if o1.trace != o2.trace {
		zzLog("C08 traces differ:\n" + o1.trace + "\n---\n" + o2.trace)
	}
	zzAssert(o1.trace == o2.trace, "C08: program output and drawing commands do not depend on map iteration order")
	if o1.result != o2.result {
		zzLog("C08 results differ:\n" + o1.result + "\n---\n" + o2.result)
	}
	zzAssert(o1.result == o2.result, "C08: the final result does not depend on map iteration order")
	zzReach("orders-ok")
	zzWitness("end")
}


// ZZC08Corpus: the program texts of the other evaluator harnesses (alias
// scenarios, type-soundness programs, inference literals) under every map
// iteration order against a fixed order.
func ZZC08Corpus() {
	var texts []string
	for _, c := range zzAliases {
		texts = append(texts, "a := 1\nb := 2\n"+zzC09Funcs+c.src+"print a b\n")
	}
	texts = append(texts, zzC02ProgramTexts()...)
	for _, l := range zzC04InferLiterals() {
		texts = append(texts, "x := [1]\ny := [\"s\"]\nv := "+l+"\nprint (typeof v) v\nprint x y\n")
	}
	src := texts[zzChoice("text", len(texts))]
	b := builtinsDeclsFromBuiltins(newBuiltins(&zzPlat{}))
	b.Globals = map[string]*parser.Var{"err": b.Globals["err"], "errmsg": b.Globals["errmsg"]}
	o1 := zzPipeline(src, b, true)
	o2 := zzPipeline(src, b, false)
	if o1 != o2 {
		zzLog("C08 corpus: outcomes differ for\n" + src + "\n" + o1.errs + o1.trace + o1.result + "\n---\n" + o2.errs + o2.trace + o2.result)
	}
	zzAssert(o1.errs == o2.errs && o1.fmted == o2.fmted, "C08 corpus: parse errors and formatted text do not depend on map iteration order")
	zzAssert(o1.trace == o2.trace && o1.result == o2.result, "C08 corpus: program output and result do not depend on map iteration order")
	zzReach("corpus-ok")
	zzWitness("end")
}


var zzC08RandProgs = []string{
	"print (rand 6) (rand 6) (rand1)\n",
	"s := 0\nfor range 3\n    s = s * 10 + (rand 10)\nend\nprint s (rand1)\n",
	"a := [(rand 3) (rand 3)]\nm := {k:(rand1) j:(rand 100)}\nprint a m\nif (rand 2) == 0\n    print \"heads\" (rand 5)\nelse\n    print \"tails\" (rand1)\nend\n",
	"func roll:num\n    return (rand 6) + 1\nend\nprint (roll) (roll)\nn := 0\nwhile n < 2 and (rand 4) > 0\n    n = n + 1\n    print \"again\" (roll)\nend\n",
}

// ZZC08Seed: program output is a function of the source and the random seed:
// two runs from the same (symbolic) seed, with the random source installed as
// `evy run --rand-seed` installs it, print the same text. The seeded source is
// modelled as an uninterpreted function of (seed, number of the call, bound);
// a result drawn from anywhere else (the global source, the clock) is a fresh
// unconstrained value and makes the two traces differ.
func ZZC08Seed() {
	src := zzC08RandProgs[zzChoice("prog", len(zzC08RandProgs))]
	seed := int64(zzInt("seed", -1<<40, 1<<40))
	run := func() (string, error) {
		RandSource = rand.New(rand.NewSource(seed)) //nolint:gosec
		p := &zzPlat{}
		ev := NewEvaluator(p)
		err := ev.Run(src)
		return p.out(), err
	}
	t1, e1 := run()
	t2, e2 := run()
	zzAssert(e1 == nil && e2 == nil, "C08 seed: programs that draw random numbers run")
	if t1 != t2 {
		zzLog("C08 seed: " + t1 + " vs " + t2)
	}
	zzAssert(t1 == t2, "C08 seed: two runs from the same random seed produce the same output")
	zzReach("seed-ok")
	zzWitness("end")
}


// ZZC08Repeat: repeating in one process reproduces everything byte for byte:
// the same parsed program formatted twice gives the same text (and the text
// of a fresh parse), and evaluated twice with fresh evaluators gives the same
// output — formatting and evaluation leave the syntax tree as they found it.
// Inputs: the layouts of the formatting corpus (multi-line literals with
// comments and blank-line runs) and the determinism programs.
func ZZC08Repeat() {
	texts := append(append([]string{}, zzFmtCorpus...), zzC08Progs...)
	texts = append(texts,
		"m := {\n  a: 1\n\n\n\n  b: 2\n  c: 3\n}\nprint m\n",
		"a := [\n  1\n\n\n\n  2 // two\n\n\n\n\n  3\n]\nprint a\n",
		"func mk:{}num\n    return {a:1 b:2 c:3}\nend\nm := mk\ndel m \"a\"\nprint m (mk)\n",
		"for i := range 2\n    m := {a:i b:2 c:3}\n    del m \"b\"\n    arr := [i [i]]\n    arr[1][0] = 9\n    print m arr\nend\n")
	src := texts[zzChoice("text", len(texts))]
	b := builtinsDeclsFromBuiltins(newBuiltins(&zzPlat{}))
	prog, err := parser.Parse(src, b)
	if err != nil {
		zzReach("repeat-rejected")
		_, err2 := parser.Parse(src, b)
		zzAssert(err2 != nil && err2.Error() == err.Error(), "C08 repeat: parsing the same text again reports the same errors")
		zzWitness("end-rejected")
		return
	}
	f1 := prog.Format()
	f2 := prog.Format()
	prog2, _ := parser.Parse(src, b)
	zzAssert(f1 == f2, "C08 repeat: formatting the same parsed program twice gives the same text")
	zzAssert(prog2 != nil && prog2.Format() == f1, "C08 repeat: a fresh parse of the same text formats to the same text")
	run := func() string {
		p := &zzPlat{reads: []string{"in"}}
		ev := NewEvaluator(p)
		rerr := ev.Eval(prog)
		out := p.out()
		if rerr != nil {
			out += "|" + rerr.Error()
		}
		return out
	}
	r1 := run()
	r2 := run()
	if r1 != r2 {
		zzLog("C08 repeat: " + src + "first  " + r1 + "\nsecond " + r2)
	}
	zzAssert(r1 == r2, "C08 repeat: evaluating the same parsed program again gives the same output")
	zzAssert(prog.Format() == f1, "C08 repeat: evaluation leaves the program's text unchanged")
	zzReach("repeat-ok")
	zzWitness("end")
}
