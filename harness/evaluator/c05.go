//go:build verif

package evaluator

import (
	"errors"
	"strings"

	"evylang.dev/evy/pkg/parser"
)

// C05 — invalid programs are rejected and nothing of them runs.
//
// A valid program with effects in every kind of position gets exactly one
// rule-breaking edit (rule x position); the recording platform must receive
// no call at all.

const zzC05Skeleton = `print "start"
move 1 1
@top-early@
func f:num n:num
@func@
    if n > 100
@funcif@
        print "big"
    end
    return n
end
func p
@proc@
    while false
@procwhile@
        print "never"
    end
    print "p"
end
on key k:string
@handler@
    for j := range 2
@handlerloop@
        print j
    end
    print k
end
if true
@if@
    cls
end
for i := range 2
@loop@
    print i
end
x := read
sleep 0.1
p
print "end" x (f 1)
@top-late@
`

type zzBreakage struct {
	rule  string
	lines []string // lines to insert (indented by the slot's depth)
	slots string   // space separated list of slots where the rule applies
}

var zzBreakages = []zzBreakage{
	{"undeclared variable", []string{"print nosuchvar"}, "top-early func proc handler if loop top-late funcif handlerloop procwhile"},
	{"unused variable", []string{"unusedv := 1"}, "top-early func proc handler if loop top-late funcif handlerloop procwhile"},
	{"redeclaration", []string{"dup := 1", "dup := 2", "print dup"}, "top-early func proc handler if loop top-late funcif handlerloop procwhile"},
	{"type mismatch", []string{"tm := 1", "tm = \"s\"", "print tm"}, "top-early func proc handler if loop top-late funcif handlerloop procwhile"},
	{"type mismatch in call", []string{"move \"a\" 1"}, "top-early func proc handler if loop top-late funcif handlerloop procwhile"},
	{"wrong number of arguments", []string{"move 1"}, "top-early func proc handler if loop top-late funcif handlerloop procwhile"},
	{"too many arguments", []string{"cls 1"}, "top-early func proc handler if loop top-late funcif handlerloop procwhile"},
	{"missing return", []string{"func g:num", "    print 1", "end"}, "top-early top-late"},
	{"redeclaration of the loop variable", []string{"print i", "i := 5", "print i"}, "loop"},
	{"typed redeclaration of the loop variable", []string{"print i", "i:num", "print i"}, "loop"},
	{"redeclaration of the loop variable in a handler", []string{"print j", "j := 5", "print j"}, "handlerloop"},
	{"redeclaration of a parameter", []string{"print n", "n := 5", "print n"}, "func"},
	{"redeclaration of a handler parameter", []string{"print k", "k := \"x\"", "print k"}, "handler"},
	{"unreachable code", []string{"return 1", "print 2"}, "func funcif"},
	{"unreachable code after a comment line", []string{"return 1", "// note", "print 2"}, "func funcif"},
	{"unreachable code after a blank line", []string{"return 1", "", "print 2"}, "func funcif"},
	{"unreachable code after break and a comment line", []string{"break", "// note", "", "print 2"}, "loop handlerloop procwhile"},
	{"unreachable code after a bare return and a blank line", []string{"return", "", "// note", "print 2"}, "proc handler procwhile handlerloop"},
	{"unreachable code after break", []string{"break", "print 2"}, "loop handlerloop procwhile"},
	{"break outside loop", []string{"break"}, "top-early func proc handler if top-late funcif"},
	{"value returned from handler", []string{"return 1"}, "handler handlerloop"},
	{"value returned from procedure", []string{"return 1"}, "proc procwhile"},
	{"wrong return type", []string{"return \"s\""}, "func funcif"},
	{"missing return value", []string{"return"}, "func funcif"},
	{"return at top level", []string{"return"}, "top-early"},
	{"unknown function", []string{"nosuchfunc 1"}, "top-early func proc handler if loop top-late funcif handlerloop procwhile"},
	{"stray text after statement", []string{"y9 := 1 2", "print y9"}, "top-early func proc handler if loop top-late funcif handlerloop procwhile"},
	{"stray text after call", []string{"cls )"}, "top-early func proc handler if loop top-late funcif handlerloop procwhile"},
	{"stray text after end", []string{"if true", "    cls", "end garbage"}, "top-early func proc handler if loop top-late funcif handlerloop procwhile"},
	{"assignment to undeclared", []string{"nosuch = 1"}, "top-early func proc handler if loop top-late funcif handlerloop procwhile"},
	{"string index assignment", []string{"si := \"abc\"", "si[0] = \"x\"", "print si"}, "top-early func proc handler if loop top-late funcif handlerloop procwhile"},
	{"unknown event", []string{"on nosuchevent", "    cls", "end"}, "top-early top-late"},
	{"redeclared function", []string{"func p", "    cls", "end"}, "top-early top-late"},
	{"condition not bool", []string{"if 1", "    cls", "end"}, "top-early func proc handler if loop top-late funcif handlerloop procwhile"},
	{"variable of an earlier branch", []string{"if true", "    sb := 1", "    print sb", "else if true", "    print sb", "end"}, "top-early func proc handler if loop top-late funcif handlerloop procwhile"},
	{"variable of an earlier else-if branch", []string{"if false", "    cls", "else if true", "    sb := 1", "    print sb", "else if true", "    print sb", "end"}, "top-early func proc handler if loop top-late funcif handlerloop procwhile"},
	{"variable of an else-if branch in else", []string{"if false", "    cls", "else if true", "    sb := 1", "    print sb", "else", "    print sb", "end"}, "top-early func proc handler if loop top-late funcif handlerloop procwhile"},
	{"variable of a branch after the if", []string{"if true", "    sb := 1", "    print sb", "end", "print sb"}, "top-early func proc handler if loop top-late funcif handlerloop procwhile"},
	{"variable of a loop body after the loop", []string{"while false", "    sb := 1", "    print sb", "end", "print sb"}, "top-early func proc handler if loop top-late funcif handlerloop procwhile"},
	{"loop variable after the loop", []string{"for sb := range 1", "    print sb", "end", "print sb"}, "top-early func proc handler if loop top-late funcif handlerloop procwhile"},
	{"variable of an earlier iteration", []string{"for range 2", "    print sb", "    sb := 1", "end"}, "top-early func proc handler if loop top-late funcif handlerloop procwhile"},
	{"local of a function used outside", []string{"print n"}, "top-early top-late if loop"},
	{"parameter of a handler used outside", []string{"print k"}, "top-early top-late func proc"},
	{"operand mismatch with empty array", []string{"om := 1 + []", "print om"}, "top-early func proc handler if loop top-late funcif handlerloop procwhile"},
	{"operand mismatch with empty array on the left", []string{"om := [] + 1", "print om"}, "top-early func proc handler if loop top-late funcif handlerloop procwhile"},
	{"operand mismatch with empty map", []string{"om := \"s\" == {}", "print om"}, "top-early func proc handler if loop top-late funcif handlerloop procwhile"},
	{"comparison with empty array", []string{"om := 1 < []", "print om"}, "top-early func proc handler if loop top-late funcif handlerloop procwhile"},
	{"mismatched operand types", []string{"om := \"s\" + 1", "print om"}, "top-early func proc handler if loop top-late funcif handlerloop procwhile"},
	{"mismatched composite operands", []string{"om := [1] + [\"s\"]", "print om"}, "top-early func proc handler if loop top-late funcif handlerloop procwhile"},
	{"logical operator on num", []string{"om := true and 1", "print om"}, "top-early func proc handler if loop top-late funcif handlerloop procwhile"},
	{"call without value as element", []string{"om := [(cls)]", "print om"}, "top-early func proc handler if loop top-late funcif handlerloop procwhile"},
	{"call without value as map value", []string{"om := {a:(cls)}", "print om"}, "top-early func proc handler if loop top-late funcif handlerloop procwhile"},
	{"call without value as operand", []string{"om := (cls) == (cls)", "print om"}, "top-early func proc handler if loop top-late funcif handlerloop procwhile"},
	{"call without value as argument", []string{"print (cls)"}, "top-early func proc handler if loop top-late funcif handlerloop procwhile"},
	{"call without value declared", []string{"om := cls", "print om"}, "top-early func proc handler if loop top-late funcif handlerloop procwhile"},
	{"illegal character", []string{"print #"}, "top-early func proc handler if loop top-late funcif handlerloop procwhile"},
	{"unterminated string", []string{"print \"abc"}, "top-early func proc handler if loop top-late funcif handlerloop procwhile"},
}

var zzSlots = []string{"top-early", "func", "proc", "handler", "if", "loop", "top-late", "funcif", "handlerloop", "procwhile"}

// zzC05Program builds the skeleton with breakage b inserted at slot.
func zzC05Program(b *zzBreakage, slot string) string {
	out := ""
	for _, line := range strings.Split(zzC05Skeleton, "\n") {
		if strings.HasPrefix(line, "@") {
			name := strings.Trim(line, "@")
			if b != nil && name == slot {
				ind := "    "
				if strings.HasPrefix(name, "top") {
					ind = ""
				}
				if name == "funcif" || name == "handlerloop" || name == "procwhile" {
					ind = "        "
				}
				for _, l := range b.lines {
					out += ind + l + "\n"
				}
			}
			continue
		}
		out += line + "\n"
	}
	return strings.TrimSuffix(out, "\n")
}

func ZZC05Reject() {
	bi := zzChoice("rule", len(zzBreakages)+1)
	p := &zzPlat{reads: []string{"in"}}
	ev := NewEvaluator(p)
	if bi == len(zzBreakages) {
		// the unbroken skeleton is valid and performs its effects (vacuity guard)
		err := ev.Run(zzC05Program(nil, ""))
		zzAssert(err == nil, "C05: the unbroken skeleton is accepted and runs")
		zzAssert(len(p.trace) >= 8, "C05: the unbroken skeleton performs its effects")
		zzReach("valid-runs")
		zzWitness("end-valid")
		return
	}
	b := &zzBreakages[bi]
	slot := zzSlots[zzChoice("slot", len(zzSlots))]
	applies := false
	for _, s := range strings.Fields(b.slots) {
		if s == slot {
			applies = true
		}
	}
	if !applies {
		zzAssume(false)
	}
	src := zzC05Program(b, slot)
	err := ev.Run(src)
	if err == nil {
		zzLog("C05 accepted (" + b.rule + " at " + slot + "):\n" + src)
	}
	zzAssert(err != nil, "C05: a program that breaks a static rule is rejected ("+b.rule+")")
	if err == nil {
		return
	}
	var perrs parser.Errors
	zzAssert(errors.As(err, &perrs) && len(perrs) >= 1, "C05: rejection is a non-empty list of parse errors ("+b.rule+")")
	for _, e := range perrs {
		zzAssert(strings.HasPrefix(e.Error(), "line "), "C05: every error is located")
	}
	if len(p.trace) != 0 {
		zzLog("C05 effects before rejection (" + b.rule + " at " + slot + "): " + p.out())
	}
	zzAssert(len(p.trace) == 0, "C05: nothing of a rejected program is executed: no output, drawing, input request or sleep ("+b.rule+")")
	zzReach("rejected")
	zzWitness("end")
}

// ---- missing return / unreachable code over generated bodies ----

// A function body is a tree of returns, plain statements, if / else-if /
// else chains, loops with breaks; it is accepted exactly when no statement
// follows one that always terminates, and the body of a function with a
// result type always terminates (docs/spec.md, "Return" and "Break").
type zzRetNode struct {
	kind     string // ret | fall | if | while | break
	branches [][]*zzRetNode
	hasElse  bool
}

func zzRetGenBlock(depth, maxDepth int, inLoop bool) []*zzRetNode {
	n := 1
	if depth == 0 {
		n = 1 + zzChoice("rlen", 2)
	} else if rb := zzParam("RB", 0); rb > 0 {
		n = 1 + zzChoice("rlen", 1+rb)
	}
	var out []*zzRetNode
	for i := 0; i < n; i++ {
		kinds := []string{"ret", "fall"}
		if depth < maxDepth {
			kinds = append(kinds, "if", "while")
		}
		if inLoop {
			kinds = append(kinds, "break")
		}
		nd := &zzRetNode{kind: kinds[zzChoice("rkind", len(kinds))]}
		switch nd.kind {
		case "if":
			k := 1 + zzChoice("rbranches", zzParam("RK", 3))
			nd.hasElse = zzChoice("relse", 2) == 1
			if nd.hasElse {
				k++
			}
			for b := 0; b < k; b++ {
				nd.branches = append(nd.branches, zzRetGenBlock(depth+1, maxDepth, inLoop))
			}
		case "while":
			nd.branches = [][]*zzRetNode{zzRetGenBlock(depth+1, maxDepth, true)}
		}
		out = append(out, nd)
	}
	return out
}

func zzRetTerminates(b []*zzRetNode) bool {
	if len(b) == 0 {
		return false
	}
	return zzRetNodeTerminates(b[len(b)-1])
}

func zzRetNodeTerminates(n *zzRetNode) bool {
	switch n.kind {
	case "ret", "break":
		return true
	case "if":
		if !n.hasElse {
			return false
		}
		for _, br := range n.branches {
			if !zzRetTerminates(br) {
				return false
			}
		}
		return true
	}
	return false
}

// zzRetUnreachable: some statement follows one that always terminates.
func zzRetUnreachable(b []*zzRetNode) bool {
	for i, n := range b {
		if i < len(b)-1 && zzRetNodeTerminates(n) {
			return true
		}
		for _, br := range n.branches {
			if zzRetUnreachable(br) {
				return true
			}
		}
	}
	return false
}

func zzRetRender(sb *strings.Builder, b []*zzRetNode, ind int, ctr *int, value bool) {
	pad := strings.Repeat("    ", ind)
	for _, n := range b {
		*ctr++
		switch n.kind {
		case "ret":
			if value {
				sb.WriteString(pad + "return " + zzN(float64(*ctr)) + "\n")
			} else {
				sb.WriteString(pad + "return\n")
			}
		case "break":
			sb.WriteString(pad + "break\n")
		case "fall":
			sb.WriteString(pad + "print \"s" + zzN(float64(*ctr)) + "\"\n")
		case "while":
			sb.WriteString(pad + "while c\n")
			zzRetRender(sb, n.branches[0], ind+1, ctr, value)
			sb.WriteString(pad + "end\n")
		case "if":
			for i, br := range n.branches {
				switch {
				case i == 0:
					sb.WriteString(pad + "if c\n")
				case n.hasElse && i == len(n.branches)-1:
					sb.WriteString(pad + "else\n")
				default:
					sb.WriteString(pad + "else if c\n")
				}
				zzRetRender(sb, br, ind+1, ctr, value)
			}
			sb.WriteString(pad + "end\n")
		}
	}
}

// ZZC05Returns: every body up to the bounds, as a function with a result
// type, as a procedure and as an event handler.
func ZZC05Returns() {
	D := zzParam("RD", 2)
	body := zzRetGenBlock(0, D, false)
	form := zzChoice("rform", 3) // 0 func with result, 1 procedure, 2 handler
	var sb strings.Builder
	ctr := 0
	sb.WriteString("c := false\nprint \"start\"\nif c\n    print c\nend\n")
	switch form {
	case 0:
		sb.WriteString("func f:num\n")
		zzRetRender(&sb, body, 1, &ctr, true)
		sb.WriteString("end\nprint (f)\n")
	case 1:
		sb.WriteString("func f\n")
		zzRetRender(&sb, body, 1, &ctr, false)
		sb.WriteString("end\nf\n")
	case 2:
		sb.WriteString("on animate\n")
		zzRetRender(&sb, body, 1, &ctr, false)
		sb.WriteString("end\n")
	}
	src := sb.String()
	want := !zzRetUnreachable(body)
	if form == 0 && !zzRetTerminates(body) {
		want = false // missing return
	}
	p := &zzPlat{}
	ev := NewEvaluator(p)
	err := ev.Run(src)
	var perrs parser.Errors
	parseRejected := err != nil && errors.As(err, &perrs)
	if parseRejected == want {
		msg := ""
		if err != nil {
			msg = err.Error()
		}
		zzLog("C05 returns: want accepted=" + map[bool]string{true: "yes", false: "no"}[want] + "\n" + src + msg)
	}
	zzAssert(parseRejected != want, "C05 returns: a body is rejected exactly when a statement follows one that always terminates or a function with a result type can reach its end (missing return)")
	if parseRejected {
		zzAssert(len(perrs) >= 1 && strings.HasPrefix(perrs[0].Error(), "line "), "C05 returns: rejection is a non-empty list of located errors")
		zzAssert(len(p.trace) == 0, "C05 returns: nothing of a rejected program is executed")
		zzReach("returns-rejected")
	} else {
		zzAssert(err == nil, "C05 returns: an accepted body runs")
		zzAssert(len(p.trace) >= 1 && p.trace[0] == "print:start\n", "C05 returns: an accepted program performs its effects")
		zzReach("returns-accepted")
	}
	zzWitness("end")
}
