//go:build verif

package evaluator

import (
	"errors"
	"strconv"
	"strings"
)

// C14 — running programs stay interruptible and stop cleanly.

type zzYielder struct {
	n      int
	stopAt int
	ev     *Evaluator
	plat   *zzPlat
}

func (y *zzYielder) Yield() {
	y.n++
	y.plat.add("Y")
	if y.n == y.stopAt {
		y.ev.Stopped = true
		y.plat.add("STOP")
	}
}

var zzC14Progs = []string{
	// 0: endless loop
	"while true\n    print \"x\"\nend\n",
	// 1: numeric range then a statement
	"for i := range 3\n    print i\nend\nprint \"done\"\n",
	// 2: recursion
	"func f n:num\n    print n\n    if n > 0\n        f n-1\n    end\nend\nf 2\nprint \"z\"\n",
	// 3: array, string and map ranges
	"for e := range [1 2]\n    print e\nend\nfor c := range \"ab\"\n    print c\nend\nfor k := range {p:1 q:2}\n    print k\nend\n",
	// 4: endless mutual recursion bounded only by the stop flag (depth budget otherwise)
	"func a\n    print \"a\"\n    b\nend\nfunc b\n    print \"b\"\n    a\nend\na\n",
	// 5: tests before an endless loop: only the summary may follow the stop
	"test true\ni := 0\nwhile i >= 0\n    i = i + 1\n    print i\nend\n",
	// 6: nested loops with break
	"for i := range 2\n    for j := range 3\n        if j == 1\n            break\n        end\n        print i j\n    end\nend\n",
	// 7: loops whose body is only a comment or empty still yield once per iteration
	"for range 6\n    // wait\nend\ni := 0\nwhile i < 5\n    i = i + 1\nend\nfor range 4\n\n    // nothing\n\nend\nprint \"done\"\n",
	// 8: busy waiting on input with a comment-only body
	"while (read) != \"q\"\n    // wait\nend\nprint \"done\"\n",
	// 9: calls of an empty procedure and of a function in an expression, in a loop
	"func nop\n    // nothing\nend\nfunc one:num\n    return 1\nend\nn := 0\nfor range 5\n    nop\n    n = n + (one)\nend\nprint n\n",
	// 10: a failed test before an endless loop: the result is still 'stopped'
	"test 1 2\nwhile true\n    print \"x\"\nend\n",
	// 11: endless loop inside a function called from a loop; early return and break paths
	"func spin n:num\n    while true\n        if n < 0\n            return\n        end\n        print n\n    end\nend\nfor i := range 2\n    spin i\nend\n",
	// 12-15: long loops of every range kind whose body is only a comment: they must be interruptible
	"for range 200\n    // wait\nend\nprint \"done\"\n",
	"a := [1] * 200\nfor range a\n    // wait\nend\nprint \"done\"\n",
	"s := \"0123456789\" + \"0123456789\"\ns = s + s + s + s + s + s + s + s + s + s\nfor range s\n\n    // wait\n\nend\nprint \"done\"\n",
	"for range 200 0 -1\n    // wait\nend\nprint \"done\"\n",
}

// zzC14MinYields: a lower bound on the yields of the complete run (one per
// loop iteration and per call), for the terminating programs.
var zzC14MinYields = map[int]int{1: 3, 2: 3, 3: 6, 6: 4, 7: 15, 8: 4, 9: 15, 12: 200, 13: 200, 14: 200, 15: 200}

var zzC14Endless = map[int]bool{0: true, 4: true, 5: true, 10: true, 11: true}

// zzEffects splits the recorded trace into platform effects, dropping the
// yield markers.
func zzTraceEffects(trace []string) []string {
	var out []string
	for _, t := range trace {
		if t != "Y" && t != "STOP" {
			out = append(out, t)
		}
	}
	return out
}

func zzRunStopped(src string, stopAt int) (*zzPlat, *zzYielder, *Evaluator, error) {
	p := &zzPlat{reads: []string{"a", "b", "c", "q"}}
	y := &zzYielder{stopAt: stopAt, plat: p}
	p.yielder = y
	ev := NewEvaluator(p)
	y.ev = ev
	err := ev.Run(src)
	return p, y, ev, err
}

// ZZC14Stop: the stop flag is raised at a symbolic yield number k.
func ZZC14Stop() {
	K := zzParam("K", 40)
	pi := zzChoice("prog", len(zzC14Progs))
	src := zzC14Progs[pi]
	k := zzInt("k", 1, K)
	p, y, ev, err := zzRunStopped(src, k)
	endless := zzC14Endless[pi]

	stopped := false
	for _, t := range p.trace {
		if t == "STOP" {
			stopped = true
		}
	}
	if !stopped {
		zzAssert(!endless, "C14: an endless program reaches every yield number")
		zzAssert(err == nil, "C14: uninterrupted terminating program ends normally")
		zzAssert(y.n >= zzC14MinYields[pi], "C14: the yielder is called at least once per loop iteration and per call of the complete run")
		zzReach("not-stopped")
		zzWitness("end-ns")
		return
	}
	zzReach("stopped")
	// (b) the run ends with the 'stopped' result
	zzAssert(err != nil && errors.Is(err, ErrStopped), "C14: once the stop flag is raised the run ends with ErrStopped")
	// (c) nothing is evaluated after the stop: no further yield, no effect except the test summary
	zzAssert(y.n == k, "C14: no evaluation step (yield) happens after the stop flag is raised")
	after := false
	for _, t := range p.trace {
		if t == "STOP" {
			after = true
			continue
		}
		if after {
			zzAssert(strings.HasPrefix(t, "print:✅") || strings.HasPrefix(t, "print:❌"), "C14: no platform effect after the stop except the test summary")
		}
	}
	// (a) yield density: at least one yield between two consecutive effects
	prevEffect := false
	for _, t := range p.trace {
		switch {
		case t == "Y" || t == "STOP":
			prevEffect = false
		default:
			zzAssert(!prevEffect, "C14: the yielder is called at least once per loop iteration / call (between two effects)")
			prevEffect = true
		}
	}
	// (d) the effects up to the stop are a prefix of the effects of a longer run
	p2, _, _, _ := zzRunStopped(src, K+5)
	e1, e2 := zzTraceEffects(p.trace), zzTraceEffects(p2.trace)
	if n := len(e1); n > 0 && (strings.HasPrefix(e1[n-1], "print:✅") || strings.HasPrefix(e1[n-1], "print:❌")) {
		e1 = e1[:n-1]
	}
	zzAssert(len(e1) <= len(e2), "C14: interrupted effects are a prefix of the uninterrupted effects (length)")
	for i := range e1 {
		if i < len(e2) {
			zzAssert(e1[i] == e2[i], "C14: interrupted effects are a prefix of the uninterrupted effects")
		}
	}
	// a stopped evaluator stays stopped for events
	_ = ev
	zzWitness("end")
}

// ZZC14Event: a stop raised during an event handler ends the handler; a
// later event on the stopped evaluator evaluates nothing.
func ZZC14Event() {
	K := zzParam("KE", 12)
	src := "on key k:string\n    for i := range 3\n        print k i\n    end\nend\n"
	p := &zzPlat{}
	y := &zzYielder{stopAt: -1, plat: p}
	p.yielder = y
	ev := NewEvaluator(p)
	y.ev = ev
	err := ev.Run(src)
	zzAssert(err == nil, "C14 event: program with handler runs")
	y.n = 0
	y.stopAt = zzInt("k", 1, K)
	err = ev.HandleEvent(Event{Name: "key", Params: []any{"a"}})
	if ev.Stopped {
		zzReach("ev-stopped")
		zzAssert(err != nil && errors.Is(err, ErrStopped), "C14 event: handler interrupted with ErrStopped")
		n := len(zzTraceEffects(p.trace))
		err = ev.HandleEvent(Event{Name: "key", Params: []any{"b"}})
		zzAssert(err != nil && errors.Is(err, ErrStopped), "C14 event: events after the stop return ErrStopped")
		zzAssert(len(zzTraceEffects(p.trace)) == n, "C14 event: no effect for events delivered after the stop")
	} else {
		zzReach("ev-done")
		zzAssert(err == nil, "C14 event: uninterrupted handler completes")
		zzAssert(strings.Join(zzTraceEffects(p.trace), "|") == "print:a 0\n|print:a 1\n|print:a 2\n", "C14 event: handler effects")
	}
	_ = strconv.Itoa
	zzWitness("end")
}


// ZZC14Density: one more loop iteration (or one more call) means at least one
// more yield — for every loop kind and every kind of body, including bodies
// that hold only comments or blank lines. The same program is run with n and
// with n+d iterations and the yields are counted.
func ZZC14Density() {
	loop := zzChoice("loop", 10)
	body := []string{"    // wait\n", "\n    // wait\n\n", "    print \"x\"\n", "    nop\n", "    if true\n        // nothing\n    end\n"}[zzChoice("body", 5)]
	n := 1 + zzChoice("n", 2)
	d := 1 + zzChoice("d", 3)
	mk := func(n int) string {
		ns := strconv.Itoa(n)
		pre := "func nop\n    // nothing\nend\nnop\n"
		switch loop {
		case 0:
			return pre + "for range " + ns + "\n" + body + "end\n"
		case 1:
			return pre + "for range " + ns + " 0 -1\n" + body + "end\n"
		case 2:
			return pre + "for range [0]*" + ns + "\n" + body + "end\n"
		case 3:
			return pre + "for range \"" + strings.Repeat("ñ", n) + "\"\n" + body + "end\n"
		case 4:
			m := ""
			for k := 0; k < n; k++ {
				m += "k" + strconv.Itoa(k) + ":1 "
			}
			return pre + "for range {" + m + "}\n" + body + "end\n"
		case 5:
			return pre + "i := 0\nwhile i < " + ns + "\n    i = i + 1\n" + body + "end\n"
		case 6: // recursion depth n: one more call, one more yield
			return pre + "func r k:num\n    if k > 0\n        r k-1\n    end\nend\nr " + ns + "\n"
		case 7: // the recursive call is an operand of a binary expression
			return pre + "func r:num k:num\n    if k > 0\n        return 1 + (r k-1)\n    end\n    return 0\nend\nx := r " + ns + "\nx = x\n"
		case 8: // calls as arguments, array elements and map values
			args := ""
			for k := 0; k < n; k++ {
				args += " (one)"
			}
			return pre + "func one:num\n    return 1\nend\nx := [" + args + " ]\nx = x\n"
		}
		// 9: calls in the condition of a loop that never runs and as operands of and / or
		c := "true"
		for k := 0; k < n; k++ {
			c += " and (yes)"
		}
		return pre + "func yes:bool\n    return true\nend\nif " + c + "\n    nop\nend\n"
	}
	_, y1, _, err1 := zzRunStopped(mk(n), -1)
	_, y2, _, err2 := zzRunStopped(mk(n+d), -1)
	zzAssert(err1 == nil && err2 == nil, "C14 density: loop programs run")
	if y2.n-y1.n < d {
		zzLog("C14 density: " + strconv.Itoa(y1.n) + " yields for n=" + strconv.Itoa(n) + ", " + strconv.Itoa(y2.n) + " for n=" + strconv.Itoa(n+d) + "\n" + mk(n+d))
	}
	zzAssert(y2.n-y1.n >= d, "C14 density: the yielder is called at least once per additional loop iteration / call, whatever the loop body holds")
	zzReach("density-ok")
	zzWitness("end")
}

// ZZC14Gen: generated programs with a recursive function, a procedure and
// loops (gen2.go) are stopped at a symbolic yield number k. The effects up to
// the stop must be a prefix of the trace the *reference interpreter* gives for
// the uninterrupted run, the run must end with ErrStopped and evaluate nothing
// further; an uninterrupted run makes at least one yield per call and per
// loop iteration of the reference run.
func ZZC14Gen() {
	K := zzParam("KG", 20)
	cfg := &zz2Cfg{maxDepth: zzParam("GD", 1), lens: []int{1, 1, 1, 1, 1}, recDepth: 1, mainSkew: 0}
	gp := zz2GenProg(cfg)
	src := gp.render()
	p := &zzPlat{}
	y := &zzYielder{stopAt: -1, plat: p}
	if zzChoice("never", 2) == 0 {
		y.stopAt = zzInt("k", 1, K)
	}
	p.yielder = y
	ev := NewEvaluator(p)
	y.ev = ev
	prog := zzMustParse(ev, src, "C14 gen")
	if prog == nil {
		return
	}
	err := ev.Eval(prog)
	want, calls := zz2RunRef(gp, 1, 2, true)
	wantFx := strings.Split(want, "|")
	fx := zzTraceEffects(p.trace)
	stopped := ev.Stopped
	for i, e := range fx {
		if i >= len(wantFx) || e != wantFx[i] {
			zzLog("C14 gen: effect " + strconv.Itoa(i) + " is " + e + "\n" + src)
		}
		zzAssert(i < len(wantFx) && e == wantFx[i], "C14 gen: the effects of an interrupted run are a prefix of the effects the definition gives for the uninterrupted run")
	}
	if stopped {
		zzReach("gen-stopped")
		zzAssert(err != nil && errors.Is(err, ErrStopped), "C14 gen: once the stop flag is raised the run ends with ErrStopped")
		zzAssert(y.n == y.stopAt, "C14 gen: no evaluation step (yield) happens after the stop flag is raised")
		after := false
		for _, t := range p.trace {
			if t == "STOP" {
				after = true
			} else if after {
				zzAssert(false, "C14 gen: no platform effect after the stop")
			}
		}
	} else {
		zzReach("gen-finished")
		zzAssert(err == nil && len(fx) == len(wantFx), "C14 gen: an uninterrupted run performs exactly the effects of the definition")
		zzAssert(y.n >= calls, "C14 gen: the yielder is called at least once per function call of the run")
	}
	zzWitness("end")
}
