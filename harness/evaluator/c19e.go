//go:build verif

package evaluator

import "errors"

// C19 (evaluator side) — argument validation before the platform is called.
func ZZC19Args() {
	p := &zzPlat{}
	ev := NewEvaluator(p)
	switch zzChoice("fn", 4) {
	case 0: // gridn: a unit that makes no progress must be rejected, never passed on
		unit := zzFloat64("unit")
		_, err := zzCall(ev, "gridn", zzNum(unit), &stringVal{V: "red"})
		if unit <= 0 {
			zzAssert(err != nil && errors.Is(err, ErrBadArguments), "C19 args: gridn with a unit <= 0 (no progress, never terminates) is a bad-arguments panic")
			zzAssert(len(p.trace) == 0, "C19 args: rejected gridn does not reach the platform")
		}
		if unit >= 0.1 {
			zzAssert(err == nil && len(p.trace) == 1, "C19 args: gridn with a sensible unit reaches the platform once")
		}
		zzReach("gridn")
	case 1: // poly: every vertex needs exactly two coordinates
		n1, n2 := zzChoice("len", 4), zzChoice("len", 4)
		mk := func(n int) value {
			els := make([]value, n)
			for k := range els {
				els[k] = zzNum(zzFloat64("c"))
			}
			return &arrayVal{Elements: &els}
		}
		_, err := zzCall(ev, "poly", mk(n1), mk(n2))
		zzAssert((err == nil) == (n1 == 2 && n2 == 2), "C19 args: poly accepts exactly vertices with two coordinates")
		if err != nil {
			zzAssert(errors.Is(err, ErrBadArguments) && len(p.trace) == 0, "C19 args: bad poly vertex is a bad-arguments panic before drawing")
		}
		zzReach("poly")
	case 2: // ellipse: 3, 4, 5 or 7 arguments
		n := zzChoice("argc", 9)
		args := make([]value, n)
		for k := range args {
			args[k] = zzNum(zzFloat64("e"))
		}
		_, err := zzCall(ev, "ellipse", args...)
		ok := n == 3 || n == 4 || n == 5 || n == 7
		zzAssert((err == nil) == ok, "C19 args: ellipse takes 3, 4, 5 or 7 arguments")
		if err == nil {
			zzAssert(len(p.trace) == 1, "C19 args: ellipse drawn once")
		}
		zzReach("ellipse")
	case 3: // numeric shape commands forward exactly their arguments
		x, y := zzFloat64("x"), zzFloat64("y")
		_, e1 := zzCall(ev, "move", zzNum(x), zzNum(y))
		_, e2 := zzCall(ev, "line", zzNum(x), zzNum(y))
		_, e3 := zzCall(ev, "rect", zzNum(x), zzNum(y))
		_, e4 := zzCall(ev, "circle", zzNum(x))
		_, e5 := zzCall(ev, "width", zzNum(y))
		zzAssert(e1 == nil && e2 == nil && e3 == nil && e4 == nil && e5 == nil, "C19 args: shape commands accept all numbers")
		zzAssert(p.out() == "move "+zzN(x)+" "+zzN(y)+"|line "+zzN(x)+" "+zzN(y)+"|rect "+zzN(x)+" "+zzN(y)+"|circle "+zzN(x)+"|width "+zzN(y), "C19 args: arguments reach the platform unchanged and in order")
		zzReach("forward")
	}
	zzWitness("end")
}
