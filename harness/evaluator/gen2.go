//go:build verif

package evaluator

import (
	"strconv"
	"strings"
)

// Second program generator: functions with parameters, return values and
// recursion, procedures, calls from inside loops and before the definition,
// parameters and locals that shadow globals, `return` and `break` at any
// nesting depth of the callee — with an independent reference interpreter
// written from docs/spec.md ("a function body sees its parameters, its own
// locals and the globals; return leaves exactly the current call; break
// leaves exactly the innermost loop").
//
// Shape of a generated program:
//
//	x := 1          (symbolic)      y := 2   (symbolic)     c0 := true (symbolic)
//	<main block>
//	print "end" x y
//	func f:num <P>:num d:num        P is x (shadows the global) or p
//	    <block B1>
//	    if d > 0
//	        t := f <P>+1 d-1
//	        print "t" t x y
//	        <block B2>
//	        return t + x
//	    end
//	    return x * 2
//	end
//	func g <Q>:num                  Q is y (shadows the global) or q
//	    <block B3>
//	end

type zz2St struct {
	kind string // print incx addy declx decly if while fornum break return callf callg
	k    int
	body []*zz2St
	els  []*zz2St
	cond string // c0 | !c0 | x < y
	lv   string
}

type zz2Cfg struct {
	maxDepth int
	lens     []int // max statements per block at each depth
	recDepth int   // d passed to f by its callers
	all      bool  // also generate all four blocks at once
	mainSkew int
}

type zz2Ctx struct {
	depth  int
	inLoop bool
	fn     string // "" (main), "f", "g"
	skew   int    // main counts as one level deeper for the nesting bound (its calls add depth of their own)
	// names declared in the scope of the block being generated (redeclaration in the same scope is an error)
	declared map[string]bool
}

func zz2GenBlock(cfg *zz2Cfg, cx zz2Ctx, ctr *int) []*zz2St {
	maxLen := cfg.lens[cx.depth]
	n := 1 + zzChoice("blocklen", maxLen)
	var out []*zz2St
	for i := 0; i < n; i++ {
		last := i == n-1
		kinds := []string{"print", "incx", "addy"}
		if (cx.depth >= 1 || cx.fn != "") && !cx.declared["x"] {
			kinds = append(kinds, "declx")
		}
		if (cx.depth >= 1 || cx.fn != "") && !cx.declared["y"] {
			kinds = append(kinds, "decly")
		}
		if cx.depth+cx.skew < cfg.maxDepth {
			kinds = append(kinds, "if", "ifelse", "while", "fornum")
		}
		if cx.fn != "f" {
			kinds = append(kinds, "callf")
		}
		if cx.fn == "" {
			kinds = append(kinds, "callg")
		}
		if last && cx.inLoop {
			kinds = append(kinds, "break")
		}
		if last && cx.fn != "" && cx.depth >= 2 {
			kinds = append(kinds, "return") // only nested: the function templates end with their own return
		}
		kind := kinds[zzChoice("stmt", len(kinds))]
		*ctr++
		st := &zz2St{kind: kind, k: *ctr}
		sub := zz2Ctx{depth: cx.depth + 1, inLoop: cx.inLoop, fn: cx.fn, skew: cx.skew, declared: map[string]bool{}}
		switch kind {
		case "declx":
			cx.declared["x"] = true
		case "decly":
			cx.declared["y"] = true
		case "if", "ifelse":
			st.cond = []string{"c0", "!c0", "x < y"}[zzChoice("cond", 3)]
			st.body = zz2GenBlock(cfg, sub, ctr)
			if kind == "ifelse" {
				st.kind = "if"
				els := sub
				els.declared = map[string]bool{}
				els.depth = cfg.maxDepth // simple statements only
				if els.depth >= len(cfg.lens) {
					els.depth = len(cfg.lens) - 1
				}
				st.els = zz2GenBlock(cfg, els, ctr)
			}
		case "while", "fornum":
			st.lv = "i" + strconv.Itoa(*ctr)
			sub.inLoop = true
			if kind == "while" {
				sub.declared[st.lv] = false
			}
			st.body = zz2GenBlock(cfg, sub, ctr)
		}
		if !last && zz2Terminates(st) {
			zzAssume(false) // unreachable code is rejected by the parser
		}
		out = append(out, st)
	}
	return out
}

func zz2Terminates(st *zz2St) bool {
	switch st.kind {
	case "break", "return":
		return true
	case "if":
		if st.els == nil {
			return false
		}
		return zz2Terminates(st.body[len(st.body)-1]) && zz2Terminates(st.els[len(st.els)-1])
	}
	return false
}

type zz2Prog struct {
	cfg    *zz2Cfg
	main   []*zz2St
	b1, b2 []*zz2St // blocks of f (nil: no f)
	b3     []*zz2St // block of g (nil: no g)
	P, Q   string   // parameter names
}

func zz2Uses(sts []*zz2St, kind string) bool {
	for _, s := range sts {
		if s.kind == kind || zz2Uses(s.body, kind) || zz2Uses(s.els, kind) {
			return true
		}
	}
	return false
}

// zz2GenProg: one of the four blocks (main, B1, B2, B3) is generated, the
// others are fixed templates that call f and g from inside a loop — the
// space is the sum, not the product, of the block spaces. vary == 4 (cfg.all)
// generates all four.
func zz2GenProg(cfg *zz2Cfg) *zz2Prog {
	ctr := 100
	p := &zz2Prog{cfg: cfg}
	nv := 4
	if cfg.all {
		nv = 5
	}
	vary := zzChoice("vary", nv)
	gen := func(which int) bool { return vary == which || vary == 4 }
	if gen(0) {
		p.main = zz2GenBlock(cfg, zz2Ctx{depth: 0, skew: cfg.mainSkew, declared: map[string]bool{"x": true, "y": true}}, &ctr)
	} else {
		// for i := range 2 / y = f x R / print / g x+y / end
		p.main = []*zz2St{{kind: "fornum", k: 1, lv: "i1", body: []*zz2St{{kind: "callf", k: 2}, {kind: "print", k: 3}, {kind: "callg", k: 4}}}}
	}
	usesG := zz2Uses(p.main, "callg")
	if usesG {
		p.Q = []string{"y", "q"}[zzChoice("Q", 2)]
		if gen(3) {
			p.b3 = zz2GenBlock(cfg, zz2Ctx{depth: 1, fn: "g", declared: map[string]bool{p.Q: true}}, &ctr)
		} else {
			p.b3 = []*zz2St{{kind: "addy", k: 5}, {kind: "print", k: 6}}
		}
	}
	if zz2Uses(p.main, "callf") || zz2Uses(p.b3, "callf") {
		p.P = []string{"x", "p"}[zzChoice("P", 2)]
		if gen(1) {
			p.b1 = zz2GenBlock(cfg, zz2Ctx{depth: 1, fn: "f", declared: map[string]bool{p.P: true, "d": true}}, &ctr)
		} else {
			p.b1 = []*zz2St{{kind: "incx", k: 7}}
		}
		if gen(2) {
			p.b2 = zz2GenBlock(cfg, zz2Ctx{depth: 2, fn: "f", declared: map[string]bool{"t": true}}, &ctr)
		} else {
			p.b2 = []*zz2St{{kind: "print", k: 8}}
		}
		if zz2Terminates(p.b1[len(p.b1)-1]) || zz2Terminates(p.b2[len(p.b2)-1]) {
			zzAssume(false)
		}
	}
	return p
}

func zz2RenderBlock(sb *strings.Builder, p *zz2Prog, sts []*zz2St, ind int, fn string) {
	pad := strings.Repeat("    ", ind)
	for _, st := range sts {
		k := strconv.Itoa(st.k)
		switch st.kind {
		case "print":
			sb.WriteString(pad + "print \"p" + k + "\" x y\n")
		case "incx":
			sb.WriteString(pad + "x = x + 1\n")
		case "addy":
			sb.WriteString(pad + "y = y + x\n")
		case "declx":
			sb.WriteString(pad + "x := " + strconv.Itoa(st.k*10) + "\n")
			sb.WriteString(pad + "print \"d" + k + "\" x\n")
		case "decly":
			sb.WriteString(pad + "y := x + " + strconv.Itoa(st.k*100) + "\n")
			sb.WriteString(pad + "print \"e" + k + "\" y\n")
		case "callf":
			sb.WriteString(pad + "y = f x " + strconv.Itoa(p.cfg.recDepth) + "\n")
		case "callg":
			sb.WriteString(pad + "g x+y\n")
		case "break":
			sb.WriteString(pad + "break\n")
		case "return":
			if fn == "f" {
				sb.WriteString(pad + "return y - x\n")
			} else {
				sb.WriteString(pad + "return\n")
			}
		case "if":
			sb.WriteString(pad + "if " + st.cond + "\n")
			zz2RenderBlock(sb, p, st.body, ind+1, fn)
			if st.els != nil {
				sb.WriteString(pad + "else\n")
				zz2RenderBlock(sb, p, st.els, ind+1, fn)
			}
			sb.WriteString(pad + "end\n")
		case "while":
			sb.WriteString(pad + st.lv + " := 0\n")
			sb.WriteString(pad + "while " + st.lv + " < 2\n")
			sb.WriteString(pad + "    " + st.lv + " = " + st.lv + " + 1\n")
			zz2RenderBlock(sb, p, st.body, ind+1, fn)
			sb.WriteString(pad + "end\n")
		case "fornum":
			sb.WriteString(pad + "for " + st.lv + " := range 2\n")
			sb.WriteString(pad + "    print \"n" + k + "\" " + st.lv + "\n")
			zz2RenderBlock(sb, p, st.body, ind+1, fn)
			sb.WriteString(pad + "end\n")
		}
	}
}

func (p *zz2Prog) render() string {
	var sb strings.Builder
	sb.WriteString("x := 1\ny := 2\nc0 := true\n")
	zz2RenderBlock(&sb, p, p.main, 0, "")
	sb.WriteString("print \"end\" x y c0\n")
	if p.b1 != nil {
		sb.WriteString("func f:num " + p.P + ":num d:num\n")
		sb.WriteString("    print \"f\" " + p.P + " d x y\n")
		zz2RenderBlock(&sb, p, p.b1, 1, "f")
		sb.WriteString("    if d > 0\n")
		sb.WriteString("        t := f " + p.P + "+1 d-1\n")
		sb.WriteString("        print \"t\" t x y\n")
		zz2RenderBlock(&sb, p, p.b2, 2, "f")
		sb.WriteString("        return t + x\n")
		sb.WriteString("    end\n")
		sb.WriteString("    return x * 2\n")
		sb.WriteString("end\n")
	}
	if p.b3 != nil {
		sb.WriteString("func g " + p.Q + ":num\n")
		sb.WriteString("    print \"g\" " + p.Q + " x y\n")
		zz2RenderBlock(&sb, p, p.b3, 1, "g")
		sb.WriteString("end\n")
	}
	return sb.String()
}

// ---- reference interpreter ----

type zz2Ref struct {
	p      *zz2Prog
	global map[string]*float64
	frame  []map[string]*float64 // scopes of the current call, innermost last (main: just the block scopes)
	c0     bool
	trace  []string
	ret    float64
	calls  int
}

func (r *zz2Ref) lookup(name string) *float64 {
	for i := len(r.frame) - 1; i >= 0; i-- {
		if v, ok := r.frame[i][name]; ok {
			return v
		}
	}
	if v, ok := r.global[name]; ok {
		return v
	}
	panic("zz2Ref: unresolved " + name)
}

func (r *zz2Ref) push() { r.frame = append(r.frame, map[string]*float64{}) }
func (r *zz2Ref) pop()  { r.frame = r.frame[:len(r.frame)-1] }
func (r *zz2Ref) declare(name string, v float64) {
	f := v
	if len(r.frame) == 0 {
		r.global[name] = &f
		return
	}
	r.frame[len(r.frame)-1][name] = &f
}
func (r *zz2Ref) out(s string) { r.trace = append(r.trace, "print:"+s+"\n") }
func (r *zz2Ref) get(n string) float64 { return *r.lookup(n) }

func (r *zz2Ref) cond(c string) bool {
	switch c {
	case "c0":
		return r.c0
	case "!c0":
		return !r.c0
	}
	return r.get("x") < r.get("y")
}

// callF: a fresh frame holding only the parameters; globals stay visible.
func (r *zz2Ref) callF(arg, d float64) float64 {
	r.calls++
	saved := r.frame
	r.frame = []map[string]*float64{{}}
	r.declare(r.p.P, arg)
	r.declare("d", d)
	v := r.bodyF()
	r.frame = saved
	return v
}

func (r *zz2Ref) bodyF() float64 {
	P := r.p.P
	r.out("f " + zzN(r.get(P)) + " " + zzN(r.get("d")) + " " + zzN(r.get("x")) + " " + zzN(r.get("y")))
	if sig := r.block(r.p.b1); sig == zzReturn {
		return r.ret
	}
	if r.get("d") > 0 {
		r.push()
		t := r.callF(r.get(P)+1, r.get("d")-1)
		r.declare("t", t)
		r.out("t " + zzN(t) + " " + zzN(r.get("x")) + " " + zzN(r.get("y")))
		if sig := r.block(r.p.b2); sig == zzReturn {
			return r.ret
		}
		return r.get("t") + r.get("x")
	}
	return r.get("x") * 2
}

func (r *zz2Ref) callG(arg float64) {
	r.calls++
	saved := r.frame
	r.frame = []map[string]*float64{{}}
	r.declare(r.p.Q, arg)
	r.out("g " + zzN(r.get(r.p.Q)) + " " + zzN(r.get("x")) + " " + zzN(r.get("y")))
	r.block(r.p.b3)
	r.frame = saved
}

func (r *zz2Ref) block(sts []*zz2St) int {
	for _, st := range sts {
		if sig := r.stmt(st); sig != zzNormal {
			return sig
		}
	}
	return zzNormal
}

func (r *zz2Ref) stmt(st *zz2St) int {
	k := strconv.Itoa(st.k)
	switch st.kind {
	case "print":
		r.out("p" + k + " " + zzN(r.get("x")) + " " + zzN(r.get("y")))
	case "incx":
		p := r.lookup("x")
		*p = *p + 1
	case "addy":
		p := r.lookup("y")
		*p = *p + r.get("x")
	case "declx":
		r.declare("x", float64(st.k*10))
		r.out("d" + k + " " + zzN(r.get("x")))
	case "decly":
		r.declare("y", r.get("x")+float64(st.k*100))
		r.out("e" + k + " " + zzN(r.get("y")))
	case "callf":
		v := r.callF(r.get("x"), float64(r.p.cfg.recDepth))
		*r.lookup("y") = v
	case "callg":
		r.callG(r.get("x") + r.get("y"))
	case "break":
		return zzBreak
	case "return":
		r.ret = r.get("y") - r.get("x")
		return zzReturn
	case "if":
		body := st.els
		if r.cond(st.cond) {
			body = st.body
		}
		if body == nil {
			return zzNormal
		}
		r.push()
		sig := r.block(body)
		r.pop()
		return sig
	case "while":
		r.declare(st.lv, 0)
		for r.get(st.lv) < 2 {
			r.push()
			p := r.lookup(st.lv)
			*p = *p + 1
			sig := r.block(st.body)
			r.pop()
			if sig == zzBreak {
				break
			}
			if sig == zzReturn {
				return sig
			}
		}
	case "fornum":
		for i := 0; i < 2; i++ {
			r.push()
			r.out("n" + k + " " + strconv.Itoa(i))
			sig := r.block(st.body)
			r.pop()
			if sig == zzBreak {
				break
			}
			if sig == zzReturn {
				return sig
			}
		}
	}
	return zzNormal
}

// zz2RunRef: expected trace and the number of calls the program makes.
func zz2RunRef(p *zz2Prog, x, y float64, c0 bool) (string, int) {
	xv, yv := x, y
	r := &zz2Ref{p: p, global: map[string]*float64{"x": &xv, "y": &yv}, c0: c0}
	// the main program's block scopes hang off an (empty) frame list: top-level
	// declarations are globals, nested blocks push scopes
	sig := zzNormal
	for _, st := range p.main {
		if sig = r.stmt(st); sig != zzNormal {
			break
		}
	}
	r.out("end " + zzN(xv) + " " + zzN(yv) + " " + strconv.FormatBool(c0))
	return strings.Join(r.trace, "|"), r.calls
}
