//go:build verif

package evaluator

// ZZSmokePipeline: engine self-check — real lexer, parser and evaluator on a
// program whose two leaf values are symbolic.
func ZZSmokePipeline() {
	src := "a := 1\nb := 2\nc := a + b * 2\nprint c (a < b)\nm := {x:a y:b}\nprint m\n"
	p := &zzPlat{}
	ev := NewEvaluator(p)
	prog, err := zzParse(ev, src)
	zzAssert(err == nil, "smoke: parses")
	a, b := zzFloat64("a"), zzFloat64("b")
	zzSetNum(prog, 0, a)
	zzSetNum(prog, 1, b)
	err = ev.Eval(prog)
	zzAssert(err == nil, "smoke: evaluates")
	zzAssert(zzSameNum(zzGlobalNum(ev, "c"), a+b*2), "smoke: c == a+b*2 for all a,b")
	lt := "false"
	if a < b {
		lt = "true"
	}
	want := "print:" + zzN(a+b*2) + " " + lt + "\n|print:{x:" + zzN(a) + " y:" + zzN(b) + "}\n"
	zzAssert(p.out() == want, "smoke: printed text")
	zzWitness("end")
}
