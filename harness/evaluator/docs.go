//go:build verif

package evaluator

import (
	"strconv"
	"strings"
)

// ZZC13DocExamples: every documented example (an ```evy block with its
// ```evy:output block in docs/builtins.md and docs/spec.md) prints exactly
// the documented output. The table zzDocExamples is regenerated from the
// current tree on every run. This is also the engine's translator
// validation: the real lexer, parser and evaluator run inside the symbolic
// executor on concrete programs and must reproduce the documented text.
func ZZC13DocExamples() {
	k := zzChoice("example", len(zzDocExamples))
	ex := zzDocExamples[k]
	p := &zzPlat{}
	if ex.in != "" {
		p.reads = strings.Split(strings.TrimSuffix(ex.in, "\n"), "\n")
	}
	ev := NewEvaluator(p)
	err := ev.Run(ex.src)
	var out strings.Builder
	for _, t := range p.trace {
		if strings.HasPrefix(t, "print:") {
			out.WriteString(strings.TrimPrefix(t, "print:"))
		}
		if t == "cls" {
			out.Reset() // the documented output is what is left on the screen
		}
	}
	got, want := strings.TrimSuffix(out.String(), "\n"), strings.TrimSuffix(ex.out, "\n")
	if err != nil || got != want {
		msg := ""
		if err != nil {
			msg = err.Error()
		}
		zzLog("doc example " + strconv.Itoa(k) + ":\n" + ex.src + "--- documented\n" + ex.out + "--- got\n" + out.String() + msg)
	}
	zzAssert(err == nil, "C13 docs: documented example runs")
	zzAssert(got == want, "C13 docs: documented example prints the documented output")
	zzReach("doc-example")
	zzWitness("end")
}
