//go:build verif

package evaluator

import (
	"errors"
	"fmt"
	"math"
	"strconv"

	"evylang.dev/evy/pkg/parser"
)

// C13 — built-in functions do what docs/builtins.md says.

func zzCall(ev *Evaluator, name string, args ...value) (value, error) {
	return ev.builtins.Funcs[name].Func(ev.scope, args)
}

func zzNum(f float64) value { return &numVal{V: f} }

// ZZC13Math: every math built-in returns the documented function of exactly
// its arguments, in order, for every float64 (NaN, ±Inf, −0 included).
func ZZC13Math() {
	names := []string{"min", "max", "abs", "floor", "ceil", "round", "pow", "log", "sqrt", "sin", "cos", "atan2"}
	name := names[zzChoice("fn", len(names))]
	x, y := zzFloat64("x"), zzFloat64("y")
	ev := NewEvaluator(&zzPlat{})
	var got value
	var err error
	var want float64
	switch name {
	case "min":
		got, err = zzCall(ev, name, zzNum(x), zzNum(y))
		want = math.Min(x, y)
	case "max":
		got, err = zzCall(ev, name, zzNum(x), zzNum(y))
		want = math.Max(x, y)
	case "pow":
		got, err = zzCall(ev, name, zzNum(x), zzNum(y))
		want = math.Pow(x, y)
	case "atan2":
		got, err = zzCall(ev, name, zzNum(x), zzNum(y))
		want = math.Atan2(x, y)
	case "abs":
		got, err = zzCall(ev, name, zzNum(x))
		want = math.Abs(x)
	case "floor":
		got, err = zzCall(ev, name, zzNum(x))
		want = math.Floor(x)
	case "ceil":
		got, err = zzCall(ev, name, zzNum(x))
		want = math.Ceil(x)
	case "round":
		got, err = zzCall(ev, name, zzNum(x))
		want = math.Round(x)
	case "log":
		got, err = zzCall(ev, name, zzNum(x))
		want = math.Log(x)
	case "sqrt":
		got, err = zzCall(ev, name, zzNum(x))
		want = math.Sqrt(x)
	case "sin":
		got, err = zzCall(ev, name, zzNum(x))
		want = math.Sin(x)
	case "cos":
		got, err = zzCall(ev, name, zzNum(x))
		want = math.Cos(x)
	}
	zzAssert(err == nil, "C13 math: "+name+" never fails")
	if err != nil {
		return
	}
	r := got.(*numVal).V
	zzAssert(zzSameBits(r, want), "C13 math: "+name+" is the documented function of exactly its arguments in order")
	// independent sanity laws from the documentation text
	switch name {
	case "min":
		zzAssert(zzOr(zzOr(zzIsNaN(x), zzIsNaN(y)), zzAnd(zzAnd(r <= x, r <= y), zzOr(r == x, r == y))), "C13 math: min is the smaller of its two arguments")
	case "max":
		zzAssert(zzOr(zzOr(zzIsNaN(x), zzIsNaN(y)), zzAnd(zzAnd(r >= x, r >= y), zzOr(r == x, r == y))), "C13 math: max is the larger of its two arguments")
	case "abs":
		zzAssert(zzOr(zzIsNaN(x), zzAnd(r >= 0, zzOr(r == x, r == -x))), "C13 math: abs is the non-negative magnitude")
	case "floor":
		zzAssert(zzOr(zzIsNaN(x), zzAnd(r <= x, zzOr(r+1 > x, r == x))), "C13 math: floor is the greatest integer <= x")
	case "ceil":
		zzAssert(zzOr(zzIsNaN(x), zzAnd(r >= x, zzOr(r-1 < x, r == x))), "C13 math: ceil is the least integer >= x")
	case "sqrt":
		zzAssert(zzImplies(x < 0, zzIsNaN(r)), "C13 math: sqrt of a negative number is NaN")
	}
	zzReach("math-" + name)
	zzWitness("end")
}

// zzRandStub: random source under the engine is a contract stub (any value
// in range); natively the real source.

// ZZC13Rand: for every float64 n and every behaviour of the random source:
// either the documented panic or an integer r with 0 <= r < n. Never a host
// panic.
func ZZC13Rand() {
	n := zzFloat64("n")
	ev := NewEvaluator(&zzPlat{})
	got, err := zzCall(ev, "rand", zzNum(n))
	if err != nil {
		zzReach("rand-err")
		zzAssert(errors.Is(err, ErrPanic), "C13 rand: out-of-domain argument is an Evy panic")
		zzAssert(!(n >= 1 && n <= 2147483647), "C13 rand: arguments inside [1, 2^31-1] are accepted")
	} else {
		zzReach("rand-ok")
		r := got.(*numVal).V
		zzAssert(n > 0, "C13 rand: n <= 0 (and NaN) is the documented panic")
		zzAssert(zzAnd(r >= 0, r < n), "C13 rand: result in [0,n)")
		zzAssert(math.Floor(r) == r, "C13 rand: result is an integer")
	}
	g1, err1 := zzCall(ev, "rand1")
	zzAssert(err1 == nil, "C13 rand1: never fails")
	if err1 == nil {
		r1 := g1.(*numVal).V
		zzAssert(zzAnd(r1 >= 0, r1 < 1), "C13 rand1: result in [0,1)")
	}
	zzWitness("end")
}

type zzConvCase struct {
	s     string
	class int // 0 valid, 1 invalid, 2 accepted-or-rejected (documentation silent)
	num   float64
	b     bool
}

var zzNumCases = []zzConvCase{
	{s: "1", num: 1}, {s: "-2.5", num: -2.5}, {s: "1e3", num: 1000}, {s: "007", num: 7},
	{s: "abc", class: 1}, {s: "", class: 1}, {s: " 1", class: 1}, {s: "1 ", class: 1}, {s: "1,5", class: 1}, {s: "ñ", class: 1}, {s: "--1", class: 1},
	{s: "NaN", class: 2}, {s: "Inf", class: 2}, {s: "1e400", class: 2}, {s: "0x10", class: 2}, {s: "1_0", class: 2},
}

var zzBoolCases = []zzConvCase{
	{s: "true", b: true}, {s: "True", b: true}, {s: "TRUE", b: true}, {s: "1", b: true},
	{s: "false"}, {s: "False"}, {s: "FALSE"}, {s: "0"},
	{s: "", class: 1}, {s: "yes", class: 1}, {s: " true", class: 1}, {s: "tRUE", class: 1}, {s: "2", class: 1},
	{s: "t", class: 2}, {s: "T", class: 2}, {s: "f", class: 2}, {s: "F", class: 2},
}

// ZZC13Conv: str2num / str2bool with the err/errmsg protocol over histories
// of H calls: err is set on failure and reset on success, the result of a
// failed conversion is the zero value.
func ZZC13Conv() {
	H := zzParam("H", 2)
	src := ""
	type step struct {
		isNum bool
		c     zzConvCase
	}
	var steps []step
	for k := 0; k < H; k++ {
		ks := strconv.Itoa(k)
		// the program may also write the globals itself between conversions
		switch zzChoice("meddle", 4) {
		case 1:
			src += "err = false\n"
		case 2:
			src += "err = true\n"
		case 3:
			src += "errmsg = \"custom\"\n"
		}
		if zzChoice("kind", 2) == 0 {
			c := zzNumCases[zzChoice("numcase", len(zzNumCases))]
			steps = append(steps, step{true, c})
			src += "n" + ks + " := str2num " + strconv.Quote(c.s) + "\n"
		} else {
			c := zzBoolCases[zzChoice("boolcase", len(zzBoolCases))]
			steps = append(steps, step{false, c})
			src += "b" + ks + " := str2bool " + strconv.Quote(c.s) + "\n"
		}
		src += "e" + ks + " := err\nm" + ks + " := errmsg\n"
	}
	for k := 0; k < H; k++ {
		ks := strconv.Itoa(k)
		if steps[k].isNum {
			src += "print n" + ks + " e" + ks + " m" + ks + "\n"
		} else {
			src += "print b" + ks + " e" + ks + " m" + ks + "\n"
		}
	}
	p := &zzPlat{}
	ev := NewEvaluator(p)
	err := ev.Run(src)
	zzAssert(err == nil, "C13 conv: conversions never panic")
	if err != nil {
		return
	}
	for k, st := range steps {
		ks := strconv.Itoa(k)
		e, _ := ev.global.get("e" + ks)
		m, _ := ev.global.get("m" + ks)
		isErr, msg := e.(*boolVal).V, m.(*stringVal).V
		fn := "str2bool"
		if st.isNum {
			fn = "str2num"
		}
		wantMsg := fn + ": cannot parse " + strconv.Quote(st.c.s)
		switch st.c.class {
		case 0:
			zzAssert(!isErr && msg == "", "C13 conv: err/errmsg are reset by a successful "+fn)
		case 1:
			zzAssert(isErr && msg == wantMsg, "C13 conv: err/errmsg are set by a failed "+fn)
		default:
			zzAssert(isErr == (msg != ""), "C13 conv: err and errmsg agree")
		}
		if st.isNum {
			n := zzGlobalNum(ev, "n"+ks)
			if isErr {
				zzAssert(n == 0, "C13 conv: a failed str2num returns 0")
			} else if st.c.class == 0 {
				zzAssert(n == st.c.num, "C13 conv: str2num returns the number")
			}
		} else {
			b := zzGlobalBool(ev, "b"+ks)
			if isErr {
				zzAssert(!b, "C13 conv: a failed str2bool returns false")
			} else if st.c.class == 0 {
				zzAssert(b == st.c.b, "C13 conv: str2bool returns the bool")
			}
		}
	}
	zzReach("conv-ok")
	zzWitness("end")
}

// ZZC13Outcome: exit / panic / test outcomes for symbolic arguments.
func ZZC13Outcome() {
	kind := zzChoice("kind", 8)
	p := &zzPlat{}
	ev := NewEvaluator(p)
	switch kind {
	case 7: // how the run ends decides the result, whatever happened before: a failed (or passed) test does not mask a later exit, panic or run-time panic
		before := []string{"", "test 1 2\n", "test true\n", "test 1 2\ntest \"a\" \"b\"\n"}[zzChoice("before", 4)]
		end := zzChoice("end", 4)
		src := before + "print \"a\"\n" + []string{"exit 3\n", "panic \"boom\"\n", "x := [1]\nprint x[5]\n", "print (rand 0)\n"}[end] + "print \"b\"\n"
		err := ev.Run(src)
		var ee ExitError
		var pe PanicError
		switch end {
		case 0:
			zzAssert(err != nil && errors.As(err, &ee) && int(ee) == 3, "C13 outcome: exit n ends the run with status n, also after a failed test")
		case 1:
			zzAssert(err != nil && errors.As(err, &pe) && string(pe) == "boom", "C13 outcome: panic ends the run with its message, also after a failed test")
		default:
			zzAssert(err != nil && errors.Is(err, ErrPanic) && !errors.As(err, &ee), "C13 outcome: a run-time panic ends the run as a panic, also after a failed test")
		}
		last := ""
		for _, t := range p.trace {
			if t == "print:a\n" || t == "print:b\n" {
				last = t
			}
		}
		zzAssert(last == "print:a\n", "C13 outcome: nothing of the program runs after exit / panic")
		zzReach("outcome-seq")
	case 6: // test want got msg: a three-argument message is printed as is
		msgs := []string{"plain", "100% sure", "%v and %d", "a %s b", ""}
		msg := msgs[zzChoice("msg", len(msgs))]
		err := ev.Run("test \"a\" \"b\" " + strconv.Quote(msg) + "\n")
		var te TestErrors
		zzAssert(err != nil && errors.As(err, &te) && len(te) == 1, "C13 test: a failing three-argument test gives one test error")
		if len(te) == 1 {
			zzAssert(te[0].Error() == "line 1 column 10: failed test: want != got: \"a\" != \"b\" ("+msg+")", "C13 test: the message of a three-argument test is printed as is")
		}
		zzReach("test-msg")
	case 0: // exit n
		n := zzFloat64("n")
		prog := zzMustParse(ev, "n := 0\nprint \"a\"\nexit n\nprint \"b\"\n", "C13 exit")
		if prog == nil {
			return
		}
		zzSetNum(prog, 0, n)
		err := ev.Eval(prog)
		var ee ExitError
		zzAssert(err != nil && errors.As(err, &ee), "C13 exit: Eval returns ExitError")
		if n == math.Floor(n) && n >= -2147483648 && n <= 2147483647 {
			zzAssert(float64(int(ee)) == n, "C13 exit: status is the argument")
		}
		zzAssert(p.out() == "print:a\n", "C13 exit: nothing runs after exit")
		zzAssert(!errors.Is(err, ErrPanic) && !errors.Is(err, ErrInternal), "C13 exit: exit is neither a panic nor an internal error")
		zzReach("exit")
	case 1: // panic msg
		err := ev.Run("print \"a\"\npanic \"boom ñ\"\nprint \"b\"\n")
		var pe PanicError
		zzAssert(err != nil && errors.As(err, &pe) && string(pe) == "boom ñ", "C13 panic: Eval returns PanicError with the message")
		zzAssert(errors.Is(err, ErrPanic), "C13 panic: PanicError is an ErrPanic")
		zzAssert(p.out() == "print:a\n", "C13 panic: nothing runs after panic")
		zzReach("panic")
	case 2: // test cond
		c := zzBool("c")
		prog := zzMustParse(ev, "c := true\ntest c\nprint \"after\"\n", "C13 test1")
		if prog == nil {
			return
		}
		zzSetBool(prog, 0, c)
		err := ev.Eval(prog)
		if c {
			zzAssert(err == nil, "C13 test: a true condition passes")
			zzAssert(p.out() == "print:after\n|print:✅ 1 passed test\n", "C13 test: summary of one passed test")
			zzAssert(ev.TestInfo.TotalCount() == 1 && ev.TestInfo.FailCount() == 0, "C13 test: counts after a passed test")
		} else {
			zzAssert(err != nil && errors.Is(err, ErrTest), "C13 test: a false condition is a failed test")
			zzAssert(ev.TestInfo.TotalCount() == 1 && ev.TestInfo.FailCount() == 1, "C13 test: counts after a failed test")
			zzAssert(p.out() == "print:after\n|print:❌ 1 failed test\n✔️ 0 passed tests\n", "C13 test: summary of one failed test")
		}
		zzReach("test1")
	case 3: // test want got (nums)
		a, b := zzFloat64("a"), zzFloat64("b")
		prog := zzMustParse(ev, "a := 1\nb := 2\ntest a b\ntest true\n", "C13 test2")
		if prog == nil {
			return
		}
		zzSetNum(prog, 0, a)
		zzSetNum(prog, 1, b)
		err := ev.Eval(prog)
		if a == b {
			zzAssert(err == nil, "C13 test: equal numbers are the same")
			zzAssert(p.out() == "print:✅ 2 passed tests\n", "C13 test: summary of two passed tests")
		} else {
			zzAssert(err != nil && errors.Is(err, ErrTest), "C13 test: different numbers fail the test")
			zzAssert(ev.TestInfo.TotalCount() == 2 && ev.TestInfo.FailCount() == 1 && ev.TestInfo.SuccessCount() == 1, "C13 test: counts 1 failed 1 passed")
			zzAssert(p.out() == "print:❌ 1 failed test\n✔️ 1 passed test\n", "C13 test: summary 1 failed 1 passed")
		}
		zzReach("test2")
	case 4: // test want got with composite / any sameness and message formatting
		x := zzFloat64("x")
		prog := zzMustParse(ev, "x := 2\ngot:[]any\ngot = [[1] [x 3]]\ntest [[1] [2 3]] got \"x is %v\" x\n", "C13 test3")
		if prog == nil {
			return
		}
		zzSetNum(prog, 0, x)
		err := ev.Eval(prog)
		if x == 2 {
			zzAssert(err == nil, "C13 test: want of a more specific type with the same values passes")
		} else {
			zzAssert(err != nil && errors.Is(err, ErrTest), "C13 test: different nested value fails")
			var te TestErrors
			zzAssert(errors.As(err, &te) && len(te) == 1, "C13 test: TestErrors carries one error")
			if len(te) == 1 {
				zzAssert(te[0].Error() == "line 4 column 18: failed test: want != got: [[1] [2 3]] != [[1] ["+zzN(x)+" 3]] (x is "+fmt.Sprintf("%v", x)+")", "C13 test: failure message with formatted text")
			}
		}
		zzReach("test3")
	case 5: // test argument validation
		bad := []string{"test 1\n", "test 1 1 2\n", "test\n"}
		src := bad[zzChoice("bad", len(bad))]
		err := ev.Run(src)
		zzAssert(err != nil && !errors.Is(err, ErrInternal), "C13 test: bad test arguments are rejected, not an internal error")
		_, isParse := err.(parser.Errors)
		zzAssert(isParse || errors.Is(err, ErrPanic), "C13 test: bad test arguments are rejected by the parser or panic")
		zzReach("testbad")
	}
	zzWitness("end")
}

// ZZC13Hsl: hsl validates the domain of every component for all numbers.
func ZZC13Hsl() {
	n := 1 + zzChoice("argc", 4)
	lim := []float64{360, 100, 100, 100}
	args := make([]value, n)
	vals := make([]float64, n)
	inDom := true
	for k := 0; k < n; k++ {
		f := zzFloat64("c")
		zzAssume(f == f) // NaN components: the documentation is silent
		vals[k] = f
		args[k] = zzNum(f)
		if f < 0 || f > lim[k] {
			inDom = false
		}
	}
	ev := NewEvaluator(&zzPlat{})
	got, err := zzCall(ev, "hsl", args...)
	zzAssert((err == nil) == inDom, "C13 hsl: panics exactly when a component is outside its documented range")
	if err != nil {
		zzAssert(errors.Is(err, ErrBadArguments), "C13 hsl: out-of-range component is a bad-arguments panic")
		zzReach("hsl-err")
	} else {
		def := []float64{0, 100, 50, 100}
		for k := 0; k < n; k++ {
			def[k] = vals[k]
		}
		_ = got
		zzReach("hsl-ok")
	}
	zzWitness("end")
}

// ZZC13Len: len counts code points (symbolic code points force a non-ASCII
// witness if bytes and code points are ever confused).
func ZZC13Len() {
	N := zzParam("N", 3)
	n := zzChoice("n", N+1)
	rs := zzSymRunes(n)
	ev := NewEvaluator(&zzPlat{})
	got, err := zzCall(ev, "len", &anyVal{V: &stringVal{V: string(rs)}, T: parser.STRING_TYPE})
	zzAssert(err == nil, "C13 len: string argument accepted")
	if err == nil {
		zzAssert(got.(*numVal).V == float64(n), "C13 len: number of code points")
	}
	zzWitness("end")
}

// ---- string built-ins against naive reference implementations written from docs/builtins.md ----

var zzStrAlphabet = []string{"", "a", "b", "ab", "ba", "aba", "ñ", "añb", "ñañ", ",", "a,b", ",a,", "a,,b", " a ", "AbC"}

func zzRefSplit(s, sep string) []string {
	rs, rsep := []rune(s), []rune(sep)
	if len(rsep) == 0 {
		var out []string
		for _, r := range rs {
			out = append(out, string(r))
		}
		return out
	}
	var out []string
	cur := ""
	for i := 0; i < len(rs); {
		if zzRunesAt(rs, i, rsep) {
			out = append(out, cur)
			cur = ""
			i += len(rsep)
			continue
		}
		cur += string(rs[i])
		i++
	}
	return append(out, cur)
}

func zzRunesAt(rs []rune, i int, sub []rune) bool {
	if i+len(sub) > len(rs) {
		return false
	}
	for k := range sub {
		if rs[i+k] != sub[k] {
			return false
		}
	}
	return true
}

func zzRefIndex(s, sub string) int {
	rs, rsub := []rune(s), []rune(sub)
	for i := 0; i+len(rsub) <= len(rs); i++ {
		if zzRunesAt(rs, i, rsub) {
			return i
		}
	}
	return -1
}

func zzRefReplace(s, old, new string) string {
	rs, ro := []rune(s), []rune(old)
	if len(ro) == 0 {
		out := new
		for _, r := range rs {
			out += string(r) + new
		}
		return out
	}
	out := ""
	for i := 0; i < len(rs); {
		if zzRunesAt(rs, i, ro) {
			out += new
			i += len(ro)
			continue
		}
		out += string(rs[i])
		i++
	}
	return out
}

func zzRefTrim(s, cutset string) string {
	rs := []rune(s)
	in := func(r rune) bool {
		for _, c := range cutset {
			if c == r {
				return true
			}
		}
		return false
	}
	for len(rs) > 0 && in(rs[0]) {
		rs = rs[1:]
	}
	for len(rs) > 0 && in(rs[len(rs)-1]) {
		rs = rs[:len(rs)-1]
	}
	return string(rs)
}

func zzRefCase(s string, upper bool) string {
	out := ""
	for _, r := range s {
		switch {
		case upper && r >= 'a' && r <= 'z':
			r -= 32
		case !upper && r >= 'A' && r <= 'Z':
			r += 32
		case upper && r == 'ñ':
			r = 'Ñ'
		case !upper && r == 'Ñ':
			r = 'ñ'
		}
		out += string(r)
	}
	return out
}

func zzEvyStr(s string) string { return strconv.Quote(s) }

func zzEvyStrArr(xs []string) string {
	out := "["
	for i, x := range xs {
		if i > 0 {
			out += " "
		}
		out += x
	}
	return out + "]"
}

// ZZC13Strings: join, split, index, startswith, endswith, trim, replace,
// upper, lower, sprint and print over an alphabet of strings that includes
// the empty string, separators at the edges and doubled, and non-ASCII text.
func ZZC13Strings() {
	fn := zzChoice("fn", 11)
	A := zzStrAlphabet
	s1 := A[zzChoice("s1", len(A))]
	var src, want string
	q := zzEvyStr
	switch fn {
	case 0, 9, 10: // join / sprint / print: separators between all elements, also empty ones
		n := zzChoice("n", 4)
		els := []string{}
		for i := 0; i < n; i++ {
			els = append(els, []string{"", "a", "ñ", "b,"}[zzChoice("el", 4)])
		}
		sep := []string{"", ",", "ab", " "}[zzChoice("sep", 4)]
		if fn != 0 {
			sep = " "
		}
		joined := ""
		lit := ""
		for i, e := range els {
			if i > 0 {
				joined += sep
				lit += " "
			}
			joined += e
			lit += q(e)
		}
		switch fn {
		case 0:
			src = "printf \"%q\\n\" (join [" + lit + "] " + q(sep) + ")\n"
			want = "print:" + strconv.Quote(joined) + "\n"
		case 9:
			src = "printf \"%q\\n\" (sprint " + lit + ")\n"
			want = "print:" + strconv.Quote(joined) + "\n"
		case 10:
			src = "print " + lit + "\n"
			want = "print:" + joined + "\n"
		}
		if s1 != "" {
			zzAssume(false) // s1 is unused here: explore once
		}
	case 1:
		sep := []string{"", ",", "a", "ab", "ñ", ",,"}[zzChoice("sep", 6)]
		parts := zzRefSplit(s1, sep)
		src = "r := split " + q(s1) + " " + q(sep) + "\nprint (len r)\nfor e := range r\n    printf \"%q \" e\nend\n"
		want = "print:" + strconv.Itoa(len(parts)) + "\n"
		for _, p := range parts {
			want += "|print:" + strconv.Quote(p) + " "
		}
	case 2:
		s2 := A[zzChoice("s2", len(A))]
		src = "print (index " + q(s1) + " " + q(s2) + ")\n"
		want = "print:" + strconv.Itoa(zzRefIndex(s1, s2)) + "\n"
	case 3:
		s2 := A[zzChoice("s2", len(A))]
		src = "print (startswith " + q(s1) + " " + q(s2) + ")\n"
		want = "print:" + strconv.FormatBool(zzRefIndex(s1, s2) == 0) + "\n"
	case 4:
		s2 := A[zzChoice("s2", len(A))]
		r1, r2 := []rune(s1), []rune(s2)
		ends := len(r2) <= len(r1) && zzRunesAt(r1, len(r1)-len(r2), r2)
		src = "print (endswith " + q(s1) + " " + q(s2) + ")\n"
		want = "print:" + strconv.FormatBool(ends) + "\n"
	case 5:
		cut := []string{"", "a", ",", "ñ", "a,", " ", "ba"}[zzChoice("cut", 7)]
		src = "printf \"%q\\n\" (trim " + q(s1) + " " + q(cut) + ")\n"
		want = "print:" + strconv.Quote(zzRefTrim(s1, cut)) + "\n"
	case 6:
		old := []string{"", "a", ",", "ñ", "ab", "aa"}[zzChoice("old", 6)]
		nw := []string{"", "X", "a", "ñ"}[zzChoice("new", 4)]
		src = "printf \"%q\\n\" (replace " + q(s1) + " " + q(old) + " " + q(nw) + ")\n"
		want = "print:" + strconv.Quote(zzRefReplace(s1, old, nw)) + "\n"
	case 7:
		src = "printf \"%q\\n\" (upper " + q(s1) + ")\n"
		want = "print:" + strconv.Quote(zzRefCase(s1, true)) + "\n"
	case 8:
		src = "printf \"%q\\n\" (lower " + q(s1) + ")\n"
		want = "print:" + strconv.Quote(zzRefCase(s1, false)) + "\n"
	}
	p := &zzPlat{}
	ev := NewEvaluator(p)
	err := ev.Run(src)
	if err != nil {
		zzLog(src + err.Error())
	}
	zzAssert(err == nil, "C13 strings: the call is accepted and runs")
	if p.out() != want {
		zzLog("C13 strings: " + src + "want " + want + "\ngot  " + p.out())
	}
	zzAssert(p.out() == want, "C13 strings: string built-ins return what docs/builtins.md specifies, positions in code points, separators between all elements")
	zzReach("strings-ok")
	zzWitness("end")
}
