//go:build verif

package evaluator

import (
	"errors"
	"strconv"
	"strings"

	"evylang.dev/evy/pkg/parser"
)

// C12 — maps are insertion-ordered dictionaries.
//
// Inductive step: arbitrary pre-state (every ordered subset of the key
// alphabet, symbolic values), reached through one of two aliases, one
// operation with every key; the post-state must equal the abstract ordered
// dictionary's and the representation invariant must be preserved.

var zzKeys = []string{"a", "b", "c", "d", "e", "f"}

type zzKV struct {
	k string
	v float64
}

// zzOrderedSubsets enumerates all ordered subsets of n keys.
func zzOrderedSubsets(n int) [][]int {
	var out [][]int
	var rec func(cur []int, used int)
	rec = func(cur []int, used int) {
		out = append(out, append([]int{}, cur...))
		for k := 0; k < n; k++ {
			if used&(1<<k) == 0 {
				rec(append(cur, k), used|1<<k)
			}
		}
	}
	rec(nil, 0)
	return out
}

func zzDictIndex(d []zzKV, k string) int {
	for i := range d {
		if d[i].k == k {
			return i
		}
	}
	return -1
}

func zzDictRender(d []zzKV) string {
	s := "{"
	for i, kv := range d {
		if i > 0 {
			s += " "
		}
		s += kv.k + ":" + zzN(kv.v)
	}
	return s + "}"
}

// zzCheckMap asserts the representation invariant of m and its equality
// with the abstract dictionary d.
func zzCheckMap(m *mapVal, d []zzKV, where string) {
	zzAssert(len(*m.Order) == len(d), "C12 "+where+": key order has one entry per dictionary entry")
	zzAssert(len(m.Pairs) == len(d), "C12 "+where+": Pairs has one entry per dictionary entry")
	if len(*m.Order) != len(d) || len(m.Pairs) != len(d) {
		return
	}
	for i, kv := range d {
		zzAssert((*m.Order)[i] == kv.k, "C12 "+where+": insertion order")
		v, ok := m.Pairs[kv.k]
		zzAssert(ok, "C12 "+where+": every ordered key is present")
		if ok {
			zzAssert(zzSameNum(v.(*numVal).V, kv.v), "C12 "+where+": value stored under key")
		}
	}
}

// ZZC12Step: one map operation from an arbitrary pre-state, run through the
// real parser and evaluator.
func ZZC12Step() {
	K := zzParam("K", 3)
	subs := zzOrderedSubsets(K)
	pre := subs[zzChoice("pre", len(subs))]
	key := zzKeys[zzChoice("key", K+1)] // K+1: one key that is never in the pre-state
	via := []string{"m", "n"}[zzChoice("alias", 2)]
	op := zzChoice("op", 9)

	// program text: construction by literal, an alias, the operation, observations
	src := "m:{}num\nm = {"
	for i, ki := range pre {
		if i > 0 {
			src += " "
		}
		src += zzKeys[ki] + ":" + strconv.Itoa(i+1)
	}
	src += "}\nv := 0\nn := m\nx := -1\nh := false\nl := -1\n"
	switch op {
	case 0:
		src += via + "[\"" + key + "\"] = v\n"
	case 1:
		src += via + "." + key + " = v\n"
	case 2:
		src += "del " + via + " \"" + key + "\"\n"
	case 3:
		src += "x = " + via + "[\"" + key + "\"]\n"
	case 4:
		src += "x = " + via + "." + key + "\n"
	case 5:
		src += "h = has " + via + " \"" + key + "\"\n"
	case 6:
		src += "l = len " + via + "\n"
	case 7: // delete then re-insert: moves to the end
		src += "del " + via + " \"" + key + "\"\n" + via + "." + key + " = v\n"
	case 8: // a deleted key is gone for lookups too
		src += "del " + via + " \"" + key + "\"\nh = has m \"" + key + "\"\nl = len n\n"
	}
	src += "print m\nprint n\nprint x h l\nprint v\n"

	p := &zzPlat{}
	ev := NewEvaluator(p)
	prog := zzMustParse(ev, src, "C12 step")
	if prog == nil {
		return
	}
	var err error
	// symbolic values: the literal's values and v
	ml := prog.Statements[1].(*parser.AssignmentStmt).Value.(*parser.MapLiteral)
	var d []zzKV
	for _, ki := range pre {
		f := zzFloat64("val")
		ml.Pairs[zzKeys[ki]].(*parser.NumLiteral).Value = f
		d = append(d, zzKV{zzKeys[ki], f})
	}
	v := zzFloat64("v")
	zzSetNum(prog, 2, v)

	// abstract ordered dictionary
	wantErr := false
	x, h, l := -1.0, false, -1.0
	idx := zzDictIndex(d, key)
	del := func() {
		if i := zzDictIndex(d, key); i >= 0 {
			d = append(append([]zzKV{}, d[:i]...), d[i+1:]...)
		}
	}
	set := func() {
		if i := zzDictIndex(d, key); i >= 0 {
			d[i].v = v // overwrite keeps the position
		} else {
			d = append(d, zzKV{key, v})
		}
	}
	switch op {
	case 0, 1:
		set()
	case 2:
		del()
	case 3, 4:
		if idx < 0 {
			wantErr = true
		} else {
			x = d[idx].v
		}
	case 5:
		h = idx >= 0
	case 6:
		l = float64(len(d))
	case 7:
		del()
		set()
	case 8:
		del()
		l = float64(len(d))
	}

	err = ev.Eval(prog)
	if wantErr {
		zzReach("missing-key")
		zzAssert(err != nil && errors.Is(err, ErrMapKey), "C12 step: looking up a missing key is the map-key panic")
		zzAssert(len(p.trace) == 0, "C12 step: nothing printed after the panic")
		zzWitness("end-err")
		return
	}
	zzAssert(err == nil, "C12 step: operation succeeds")
	if err != nil {
		return
	}
	mv, _ := ev.global.get("m")
	nv, _ := ev.global.get("n")
	zzAssert(mv == nv, "C12 step: both aliases still name the same map")
	zzCheckMap(mv.(*mapVal), d, "step")
	want := "print:" + zzDictRender(d) + "\n|print:" + zzDictRender(d) + "\n|print:" + zzN(x) + " " + strconv.FormatBool(h) + " " + zzN(l) + "\n|print:" + zzN(v) + "\n"
	zzAssert(p.out() == want, "C12 step: printed map (insertion order), lookup, has and len results")
	zzReach("op-ok")
	zzWitness("end")
}

// ZZC12Iter: iteration protocol. While ranging over the map, at the
// iteration that visits a chosen trigger key, a sequence of up to two
// operations (delete / insert-or-overwrite, each with its own key) is
// performed through an alias: visited keys = keys present at loop entry that
// are still present when reached, in entry order; added keys are not visited.
func ZZC12Iter() {
	K := zzParam("K", 3)
	subs := zzOrderedSubsets(K)
	pre := subs[zzChoice("pre", len(subs))]
	if len(pre) == 0 {
		zzAssume(false)
	}
	trigger := zzKeys[pre[zzChoice("trigger", len(pre))]]
	type mop struct {
		kind int // 0 none 1 del 2 set
		key  string
	}
	var ops []mop
	for o := 0; o < 2; o++ {
		k := zzChoice("op", 3)
		if k == 0 {
			break
		}
		ops = append(ops, mop{k, zzKeys[zzChoice("key", K+1)]})
	}

	src := "m:{}num\nm = {"
	for i, ki := range pre {
		if i > 0 {
			src += " "
		}
		src += zzKeys[ki] + ":" + strconv.Itoa(i+1)
	}
	src += "}\nn := m\nfor k := range m\n    print k\n    if k == \"" + trigger + "\"\n"
	if len(ops) == 0 {
		src += "        print \"nop\"\n"
	}
	for _, o := range ops {
		if o.kind == 1 {
			src += "        del n \"" + o.key + "\"\n"
		} else {
			src += "        n." + o.key + " = 9\n"
		}
	}
	src += "    end\nend\nprint n\n"

	// oracle
	var d []zzKV
	for i, ki := range pre {
		d = append(d, zzKV{zzKeys[ki], float64(i + 1)})
	}
	entry := append([]zzKV{}, d...)
	want := ""
	for _, e := range entry {
		if zzDictIndex(d, e.k) < 0 {
			continue // deleted before being reached
		}
		want += "print:" + e.k + "\n|"
		if e.k == trigger {
			if len(ops) == 0 {
				want += "print:nop\n|"
			}
			for _, o := range ops {
				i := zzDictIndex(d, o.key)
				if o.kind == 1 {
					if i >= 0 {
						d = append(append([]zzKV{}, d[:i]...), d[i+1:]...)
					}
				} else if i >= 0 {
					d[i].v = 9
				} else {
					d = append(d, zzKV{o.key, 9})
				}
			}
		}
	}
	want += "print:" + zzDictRender(d) + "\n"

	p := &zzPlat{}
	ev := NewEvaluator(p)
	err := ev.Run(src)
	if err != nil {
		zzLog(src + err.Error())
	}
	zzAssert(err == nil, "C12 iter: modifying a map while ranging over it is safe")
	if p.out() != want {
		zzLog("C12 iter mismatch:\n" + src + "got:  " + p.out() + "\nwant: " + want)
	}
	zzAssert(p.out() == want, "C12 iter: visited keys are those present at entry and still present when reached, in entry order")
	if err == nil {
		mv, _ := ev.global.get("m")
		zzCheckMap(mv.(*mapVal), d, "iter")
	}
	zzReach("iter-ok")
	zzWitness("end")
}

// ZZC12Copies: maps copied by array repetition are independent dictionaries:
// an operation on one copy changes neither the original nor the other copy.
func ZZC12Copies() {
	K := zzParam("K", 3)
	subs := zzOrderedSubsets(K)
	pre := subs[zzChoice("pre", len(subs))]
	key := zzKeys[zzChoice("key", K+1)]
	op := zzChoice("op", 3) // 0 del 1 set 2 del then set another key
	key2 := zzKeys[zzChoice("key2", K+1)]
	src := "m:{}num\nm = {"
	for i, ki := range pre {
		if i > 0 {
			src += " "
		}
		src += zzKeys[ki] + ":" + strconv.Itoa(i+1)
	}
	src += "}\nrep := [m] * 3\nc := rep[0]\ne := rep[2]\n"
	var d0 []zzKV
	for i, ki := range pre {
		d0 = append(d0, zzKV{zzKeys[ki], float64(i + 1)})
	}
	dc := append([]zzKV{}, d0...)
	de := append([]zzKV{}, d0...)
	apply := func(d []zzKV, kind int, k string) []zzKV {
		i := zzDictIndex(d, k)
		if kind == 0 {
			if i >= 0 {
				return append(append([]zzKV{}, d[:i]...), d[i+1:]...)
			}
			return d
		}
		if i >= 0 {
			d[i].v = 9
			return d
		}
		return append(d, zzKV{k, 9})
	}
	switch op {
	case 0:
		src += "del c \"" + key + "\"\n"
		dc = apply(dc, 0, key)
	case 1:
		src += "c." + key + " = 9\n"
		dc = apply(dc, 1, key)
	case 2:
		src += "del c \"" + key + "\"\nc." + key2 + " = 9\ne." + key + " = 9\n"
		dc = apply(apply(dc, 0, key), 1, key2)
		de = apply(de, 1, key)
	}
	src += "ks := \"\"\nfor k := range rep[1]\n    ks = ks + k\nend\nprint m\nprint c\nprint rep[1] ks\nprint e\n"
	ks := ""
	for _, kv := range d0 {
		ks += kv.k
	}
	want := "print:" + zzDictRender(d0) + "\n|print:" + zzDictRender(dc) + "\n|print:" + zzDictRender(d0) + " " + ks + "\n|print:" + zzDictRender(de) + "\n"
	p := &zzPlat{}
	ev := NewEvaluator(p)
	err := ev.Run(src)
	if err != nil {
		zzLog(src + err.Error())
	}
	zzAssert(err == nil, "C12 copies: program runs")
	if p.out() != want {
		zzLog("C12 copies mismatch:\n" + src + "got:  " + p.out() + "\nwant: " + want)
	}
	zzAssert(p.out() == want, "C12 copies: a map copied by repetition is an independent insertion-ordered dictionary")
	zzReach("copies-ok")
	zzWitness("end")
}

// ZZC12Equal: map equality ignores order and compares values deeply.
func ZZC12Equal() {
	K := zzParam("K", 3)
	subs := zzOrderedSubsets(K)
	a := subs[zzChoice("a", len(subs))]
	b := subs[zzChoice("b", len(subs))]
	lit := func(s []int) string {
		r := "{"
		for i, ki := range s {
			if i > 0 {
				r += " "
			}
			r += zzKeys[ki] + ":[1 " + strconv.Itoa(ki) + "]"
		}
		return r + "}"
	}
	src := "x := 0\ny := 0\ne := " + lit(a) + " == " + lit(b) + "\nf := {k:[x]} == {k:[y]}\nprint e f\n"
	p := &zzPlat{}
	ev := NewEvaluator(p)
	prog := zzMustParse(ev, src, "C12 equal")
	if prog == nil {
		return
	}
	var err error
	x, y := zzFloat64("x"), zzFloat64("y")
	zzSetNum(prog, 0, x)
	zzSetNum(prog, 1, y)
	err = ev.Eval(prog)
	zzAssert(err == nil, "C12 equal: evaluates")
	if err != nil {
		return
	}
	sameSet := len(a) == len(b)
	for _, ka := range a {
		found := false
		for _, kb := range b {
			if ka == kb {
				found = true
			}
		}
		sameSet = sameSet && found
	}
	zzAssert(zzGlobalBool(ev, "e") == sameSet, "C12 equal: equality ignores insertion order and compares key sets")
	zzAssert(zzGlobalBool(ev, "f") == (x == y), "C12 equal: values are compared deeply")
	zzWitness("end")
}

// ZZC12Literal: a map (or array) literal is evaluated anew each time control
// reaches it: whatever is done to one instance — delete any key, re-insert,
// overwrite, insert, through any alias — the next evaluation of the same
// literal (in a function called again, in the next loop iteration) yields the
// map the source text says, in source order.
func ZZC12Literal() {
	ops := []string{
		"del m \"a\"\n", "del m \"b\"\n", "del m \"c\"\n",
		"del m \"a\"\nm.a = 9\n", "del m \"b\"\nm.b = 9\n", "m.b = 9\n", "m.z = 9\n",
		"del m \"a\"\ndel m \"b\"\ndel m \"c\"\n", "del m \"b\"\nm.z = 9\ndel m \"a\"\n",
		"n := m\ndel n \"b\"\n", "for k := range m\n    del m k\nend\n",
	}
	op := ops[zzChoice("op", len(ops))]
	site := zzChoice("site", 3)
	x := zzFloat64("x")
	var src string
	switch site {
	case 0: // the literal sits in a function that is called twice
		src = "x := 1\nfunc mk:{}num\n    return {a:x b:2 c:3}\nend\nm := mk\n" + op + "print \"first\" (has m \"q\")\nm2 := mk\nprint m2\nfor k := range m2\n    print k m2[k]\nend\n"
	case 1: // the literal sits in a loop body
		src = "x := 1\nfor i := range 2\n    m := {a:x b:2 c:3}\n    print i m\n    for k := range m\n        print k m[k]\n    end\n" + zzIndentLines(op, "    ") + "end\n"
	case 2: // the literal is an element of an outer literal built in a function
		src = "x := 1\nfunc mk:[]{}num\n    return [{a:x b:2 c:3}]\nend\nouter := mk\nm := outer[0]\n" + op + "print \"first\" (has m \"q\")\nm2 := mk\nprint m2[0]\nfor k := range m2[0]\n    print k m2[0][k]\nend\n"
	}
	p := &zzPlat{}
	ev := NewEvaluator(p)
	prog := zzMustParse(ev, src, "C12 literal")
	if prog == nil {
		return
	}
	zzSetNum(prog, 0, x)
	err := ev.Eval(prog)
	zzAssert(err == nil, "C12 literal: scenario runs")
	if err != nil {
		return
	}
	X := zzN(x)
	lit := "{a:" + X + " b:2 c:3}"
	iter := "|print:a " + X + "\n|print:b 2\n|print:c 3\n"
	out := p.out()
	var ok bool
	switch site {
	case 0, 2:
		ok = out == "print:first false\n|print:"+lit+"\n"+iter
	case 1:
		ok = out == "print:0 "+lit+"\n"+iter+"|print:1 "+lit+"\n"+iter
	}
	if !ok {
		zzLog("C12 literal: got " + out + "\n" + src)
	}
	zzAssert(ok, "C12 literal: every evaluation of a map literal yields a fresh map with the keys of the source text in source order, whatever happened to earlier instances")
	zzReach("literal-ok")
	zzWitness("end")
}

func zzIndentLines(s, pad string) string {
	out := ""
	for _, l := range strings.Split(strings.TrimSuffix(s, "\n"), "\n") {
		out += pad + l + "\n"
	}
	return out
}
