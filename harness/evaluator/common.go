//go:build verif

package evaluator

import (
	"errors"
	"strconv"
	"strings"
	"time"

	"evylang.dev/evy/pkg/parser"
)

// zzPlat is the recording platform: every call the evaluator makes on the
// platform becomes one entry of the observable trace.
type zzPlat struct {
	trace   []string
	reads   []string
	yielder Yielder
}

func zzN(f float64) string { return strconv.FormatFloat(f, 'f', -1, 64) }

func (p *zzPlat) add(s string)              { p.trace = append(p.trace, s) }
func (p *zzPlat) Print(s string)            { p.add("print:" + s) }
func (p *zzPlat) Cls()                      { p.add("cls") }
func (p *zzPlat) Sleep(d time.Duration)     { p.add("sleep") }
func (p *zzPlat) Yielder() Yielder          { return p.yielder }
func (p *zzPlat) Move(x, y float64)         { p.add("move " + zzN(x) + " " + zzN(y)) }
func (p *zzPlat) Line(x, y float64)         { p.add("line " + zzN(x) + " " + zzN(y)) }
func (p *zzPlat) Rect(x, y float64)         { p.add("rect " + zzN(x) + " " + zzN(y)) }
func (p *zzPlat) Circle(r float64)          { p.add("circle " + zzN(r)) }
func (p *zzPlat) Width(w float64)           { p.add("width " + zzN(w)) }
func (p *zzPlat) Color(s string)            { p.add("color " + s) }
func (p *zzPlat) Clear(s string)            { p.add("clear " + s) }
func (p *zzPlat) Stroke(s string)           { p.add("stroke " + s) }
func (p *zzPlat) Fill(s string)             { p.add("fill " + s) }
func (p *zzPlat) Linecap(s string)          { p.add("linecap " + s) }
func (p *zzPlat) Text(s string)             { p.add("text " + s) }
func (p *zzPlat) Gridn(u float64, c string) { p.add("gridn " + zzN(u) + " " + c) }
func (p *zzPlat) Font(m map[string]any)     { p.add("font " + strconv.Itoa(len(m))) }
func (p *zzPlat) Dash(seg []float64) {
	s := "dash"
	for _, f := range seg {
		s += " " + zzN(f)
	}
	p.add(s)
}
func (p *zzPlat) Poly(vs [][]float64) {
	s := "poly"
	for _, v := range vs {
		s += " [" + zzN(v[0]) + " " + zzN(v[1]) + "]"
	}
	p.add(s)
}
func (p *zzPlat) Ellipse(x, y, rx, ry, rot, sa, ea float64) {
	p.add("ellipse " + zzN(x) + " " + zzN(y) + " " + zzN(rx) + " " + zzN(ry) + " " + zzN(rot) + " " + zzN(sa) + " " + zzN(ea))
}
func (p *zzPlat) Read() string {
	if len(p.reads) == 0 {
		p.add("read:")
		return ""
	}
	s := p.reads[0]
	p.reads = p.reads[1:]
	p.add("read:" + s)
	return s
}

func (p *zzPlat) out() string { return strings.Join(p.trace, "|") }

// zzParse parses src with the evaluator's builtins (as Evaluator.Run does).
func zzParse(ev *Evaluator, src string) (*parser.Program, error) {
	return parser.Parse(src, builtinsDeclsFromBuiltins(ev.builtins))
}

// zzSetNum overwrites the value of the numeric literal that initialises the
// k-th top-level statement (which must be `name := <num literal>`).
func zzSetNum(prog *parser.Program, k int, f float64) {
	prog.Statements[k].(*parser.InferredDeclStmt).Decl.Value.(*parser.NumLiteral).Value = f
}

func zzSetBool(prog *parser.Program, k int, b bool) {
	prog.Statements[k].(*parser.InferredDeclStmt).Decl.Value.(*parser.BoolLiteral).Value = b
}

// zzGlobalNum reads a global num variable after evaluation.
func zzGlobalNum(ev *Evaluator, name string) float64 {
	v, ok := ev.global.get(name)
	if !ok {
		panic("zzGlobalNum: no global " + name)
	}
	return v.(*numVal).V
}

func zzGlobalBool(ev *Evaluator, name string) bool {
	v, ok := ev.global.get(name)
	if !ok {
		panic("zzGlobalBool: no global " + name)
	}
	return v.(*boolVal).V
}

// zzMustParse parses src; a parse failure of a harness-generated program is
// reported (with the source and the errors) as an assertion failure.
func zzMustParse(ev *Evaluator, src, what string) *parser.Program {
	prog, err := zzParse(ev, src)
	if err != nil {
		zzLog(what + ": generated program does not parse:\n" + src + "\n" + err.Error())
	}
	zzAssert(err == nil, what+": generated program parses")
	if err != nil {
		return nil
	}
	return prog
}

// zzSymRunes returns n symbolic code points (Unicode scalar values); a
// string built from them is a rune-vector string under the engine.
func zzSymRunes(n int) []rune {
	rs := make([]rune, n)
	for k := 0; k < n; k++ {
		rs[k] = zzRune("r")
	}
	return rs
}

// zzSpecIndex: i is an integer with -n <= i < n; returns the position.
func zzSpecIndex(f float64, n int) (int, bool) {
	for k := -n; k < n; k++ {
		if f == float64(k) {
			if k < 0 {
				return n + k, true
			}
			return k, true
		}
	}
	return 0, false
}

// zzSpecBound: slice bound after adding n to negative values must be in [0,n].
func zzSpecBound(f float64, n int) (int, bool) {
	for k := -n; k <= n; k++ {
		if f == float64(k) {
			if k < 0 {
				return n + k, true
			}
			return k, true
		}
	}
	return 0, false
}


func zzAcceptableErr(err error) bool {
	var ee ExitError
	return errors.Is(err, ErrPanic) || errors.As(err, &ee) || errors.Is(err, ErrTest)
}

// zzFmtCorpus: hand-written layouts of every syntax form (formatting corpus of C06/C07, also used by C08).
var zzFmtCorpus = []string{
	"x:=1\nprint   x\n",
	"x := 1 // decl\n\n\n\nprint x // use\n// tail\n",
	"\n\n// head\nx := [1   2\t3]\nprint x[ 0 ] x[1 : ] x[ : 2] x[:]\n",
	"a := [\n    1 // one\n\n\n    2\n\n]\nprint a\n",
	"a := [ // first\n  1 2\n  3 ]\nprint a\n",
	"m := {a:1   b : 2}\nprint m.a m[ \"b\" ]\n",
	"m := {\n  a: 1 // A\n  // own\n\n\n  b: [\n     1\n  ]\n}\nprint m\n",
	"func f:num n:num   m:num // sig\n  return n+m // r\nend // e\nprint (f 1 2)\n",
	"func g a:any...\n\tprint (len a)\nend\ng 1 \"s\"\n",
	"print 1\nfunc f\n    print 2\nend\nprint 3\nf\n",
	"on key k:string // c1\n    print k // c2\nend // c3\n",
	"if true // a\n  print 1\nelse if false // b\n  print 2\nelse // c\n  print 3\nend // d\n",
	"i := 0\nwhile i < 2 // w\n\n  i = i + 1 // inc\n\n\n  // own\nend // e\n",
	"for i := range 1 10 2 // f\n  print i\nend // e\nfor range 2\n  print 0\nend\n",
	"x:num // typed\ny:[]string\nz:{}any\nx = 2\ny = [ \"a\" ]\nz.k = x\nprint x y z\n",
	"v:any\nv = 1\nn := v.(num)\nprint n -n !(n == 1)\n",
	"s := \"a\\tb\" + \"ñ\"\nprint s s[0] (s + \"x\")\n",
	"x := (1 + 2) * 3 - -4 / 5 % 6\ny := 1.50\nb := x < y and !(x >= y) or x == y\nprint x y b\n",
	"print 1 \r\nprint 2 \t\r\n",
	"print 1 // no newline at end",
	"\n\n\n",
	"",
	"func f\n    return\nend\n\n\n\nfunc g\n    f\nend\ng\n",
	"// a\n\n// b\nfunc f\n    print 1\nend\n// c\nf\n",
	"x := [[1 2] [ ]  {} ]\nprint x\n",
	"print (len \"abc\")   (len [1 2])\n",
	// number literals of every magnitude are written back in a form that parses again
	"a := 0.00001\nb := 2500000\nc := 123456789012345678901234\nd := 0.000000001\nprint a b c d 0.5 100000 1234567.125\n",
	// multi-line literals inside blocks, with trailing and own-line comments
	"if true\n    a := [\n        1 // one\n    ]\n    print a\nend\n",
	"func f\n    m := {\n        a: 1 // A\n        // own\n        b: [\n            2 // two\n        ]\n    }\n    print m\nend\nf\n",
	"for i := range 2\n    if i > 0\n        a := [ // first\n            i\n            [\n                i // nested\n            ] // after\n        ]\n        print a\n    end\nend\n",
	"on key k:string\n    print [\n        k // key\n    ] {\n        a: k // again\n    }\nend\n",
	"print 1\nprint 2\n// c\nfunc f\n    print 3\nend\nf\n",
}
