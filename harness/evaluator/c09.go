//go:build verif

package evaluator

// C09 — basic values are copied, composites are shared.
//
// Alias scenarios: how the alias is made x how the update happens x where it
// is observed. The old value a and the new value b are symbolic numbers; the
// expected output follows from one rule: the update shows through the other
// name iff the value is an array or map and the alias was made by a sharing
// operation (declaration, assignment, argument, return, element/map/any
// storage), never through a slice, concatenation or repetition.

type zzAlias struct {
	name string
	src  string // uses globals a (old) and b (new), prints observations
	want string // %A = old value, %B = new value
}

const zzC09Funcs = "func setnum p:num v:num\n    p = v\n    print \"in\" p\nend\n" +
	"func setel p:[]num v:num\n    p[0] = v\nend\n" +
	"func setkey p:{}num v:num\n    p.k = v\nend\n" +
	"func idnum:num p:num\n    return p\nend\n" +
	"func idarr:[]num p:[]num\n    return p\nend\n" +
	"func variadic p:num...\n    p[0] = 99\n    print \"vin\" p\nend\n"

var zzAliases = []zzAlias{
	// ---- basic values are copied ----
	{"num decl", "y := a\na = b\nprint a y\n", "print:%B %A\n"},
	{"num decl reverse", "y := a\ny = b\nprint a y\n", "print:%A %B\n"},
	{"num assign", "y := 0\ny = a\na = b\nprint a y\n", "print:%B %A\n"},
	{"num argument", "setnum a b\nprint a\n", "print:in %B\n|print:%A\n"},
	{"num return", "y := idnum a\na = b\nprint a y\n", "print:%B %A\n"},
	{"num array element in", "arr := [a]\na = b\nprint a arr\n", "print:%B [%A]\n"},
	{"num array element out", "arr := [a]\ny := arr[0]\narr[0] = b\nprint y arr a\n", "print:%A [%B] %A\n"},
	{"num map value in", "m := {k:a}\na = b\nprint a m\n", "print:%B {k:%A}\n"},
	{"num map value out", "m := {k:a}\ny := m.k\nm.k = b\nprint y m a\n", "print:%A {k:%B} %A\n"},
	{"num any", "v:any\nv = a\na = b\nprint a v\n", "print:%B %A\n"},
	{"num any out", "v:any\nv = a\ny := v.(num)\nv = b\nprint y v\n", "print:%A %B\n"},
	{"num loop var", "arr := [a a]\nfor e := range arr\n    e = b\n    print e\nend\nprint arr\n", "print:%B\n|print:%B\n|print:[%A %A]\n"},
	{"num range var", "arr := [a b]\nlast := 0\nfor e := range arr\n    last = e\n    arr[0] = 7\nend\nprint last arr\n", "print:%B [7 %B]\n"},
	{"num variadic", "variadic a b\nprint a b\n", "print:vin [99 %B]\n|print:%A %B\n"},
	{"num index assign copies", "arr := [0]\narr[0] = a\na = b\nprint arr\n", "print:[%A]\n"},
	{"num map assign copies", "m := {k:0}\nm.k = a\na = b\nprint m\n", "print:{k:%A}\n"},
	{"string decl", "s := \"x\"\nt := s\ns = \"y\"\nprint s t a b\n", "print:y x %A %B\n"},
	{"bool decl", "p := a < b\nq := p\np = !p\nprint (p == q) a b\n", "print:false %A %B\n"},
	{"err copy on read", "e := err\nm := errmsg\nn := str2num \"zz\"\nprint e m err n\n", "print:false  true 0\n"},
	{"err copy then reset", "n := str2num \"zz\"\ne := err\nm := errmsg\nn = str2num \"1\"\nprint e (m == \"\") err errmsg n\n", "print:true false false  1\n"},
	{"err assign", "e := true\ne = err\nm := \"x\"\nm = errmsg\nn := str2num \"zz\"\nprint e (m == \"\") err n\n", "print:false true true 0\n"},
	{"err in array", "arr := [err]\nn := str2num \"zz\"\nprint arr err n\n", "print:[false] true 0\n"},
	{"err in map", "m := {k:errmsg}\nn := str2num \"zz\"\nprint (m.k == \"\") err n\n", "print:true true 0\n"},
	{"err argument", "func keep:bool p:bool\n    n := str2num \"zz\"\n    print \"in\" n\n    return p\nend\ny := keep err\nprint y err\n", "print:in 0\n|print:false true\n"},
	{"err any", "v:any\nv = err\nn := str2num \"zz\"\nprint v err n\n", "print:false true 0\n"},
	// err / errmsg stored by assignment into containers, returned from functions, wrapped in any
	{"err map field assign", "m := {k:true}\nm.k = err\nn := str2num \"zz\"\nprint m err n\n", "print:{k:false} true 0\n"},
	{"err map index assign", "m := {k:\"x\"}\nm[\"k\"] = errmsg\nn := str2num \"zz\"\nprint (m.k == \"\") err n\n", "print:true true 0\n"},
	{"err array index assign", "arr := [true]\narr[0] = err\nn := str2num \"zz\"\nprint arr err n\n", "print:[false] true 0\n"},
	{"err returned", "func geterr:bool\n    return err\nend\nm := {k:true}\nm.k = geterr\ne := geterr\nn := str2num \"zz\"\nprint m e err n\n", "print:{k:false} false true 0\n"},
	{"err any map", "m:{}any\nm.k = errmsg\nm.j = err\nn := str2num \"zz\"\nprint m err n\n", "print:{k: j:false} true 0\n"},
	{"errmsg after failure kept", "n := str2num \"zz\"\nm := {k:\"\"}\nm.k = errmsg\narr := [\"\"]\narr[0] = errmsg\nn = str2num \"1\"\nprint m arr err n\n", "print:{k:str2num: cannot parse \"zz\"} [str2num: cannot parse \"zz\"] false 1\n"},
	{"num map field assign copies", "m := {k:0}\nm.k = a\nm[\"j\"] = a\na = b\nprint m a\n", "print:{k:%A j:%A} %B\n"},
	// ---- composites are shared ----
	{"array decl", "x := [a 2]\ny := x\nx[0] = b\nprint x y\n", "print:[%B 2] [%B 2]\n"},
	{"array assign", "x := [a 2]\ny := [0]\ny = x\ny[0] = b\nprint x y\n", "print:[%B 2] [%B 2]\n"},
	{"array argument", "x := [a 2]\nsetel x b\nprint x\n", "print:[%B 2]\n"},
	{"array return", "x := [a 2]\ny := idarr x\ny[0] = b\nprint x\n", "print:[%B 2]\n"},
	{"array in array", "x := [a 2]\nouter := [x]\nx[0] = b\nprint outer\n", "print:[[%B 2]]\n"},
	{"array in map", "x := [a 2]\nm := {k:x}\nm.k[0] = b\nprint x\n", "print:[%B 2]\n"},
	{"array in any", "x := [a 2]\nv:any\nv = x\nx[0] = b\nprint v\n", "print:[%B 2]\n"},
	{"array any out", "x := [a 2]\nv:any\nv = x\ny := v.([]num)\ny[0] = b\nprint x\n", "print:[%B 2]\n"},
	{"array loop var", "outer := [[a] [a]]\nfor e := range outer\n    e[0] = b\nend\nprint outer\n", "print:[[%B] [%B]]\n"},
	{"map decl", "m := {k:a}\nn := m\nn.k = b\nprint m n\n", "print:{k:%B} {k:%B}\n"},
	{"map argument", "m := {k:a}\nsetkey m b\nprint m\n", "print:{k:%B}\n"},
	{"map del through alias", "m := {k:a j:b}\nn := m\ndel n \"k\"\nprint m (has m \"k\")\n", "print:{j:%B} false\n"},
	{"map in array", "m := {k:a}\narr := [m]\narr[0].k = b\nprint m\n", "print:{k:%B}\n"},
	{"map in any", "m := {k:a}\nv:any\nv = m\nm.j = b\nprint v\n", "print:{k:%A j:%B}\n"},
	// ---- slicing, concatenation, repetition produce fresh containers ----
	{"slice fresh", "x := [a 2]\ny := x[:]\ny[0] = b\nx[1] = 3\nprint x y\n", "print:[%A 3] [%B 2]\n"},
	{"slice partial fresh", "x := [a 2 3]\ny := x[1:]\nx[1] = b\nprint x y\n", "print:[%A %B 3] [2 3]\n"},
	{"concat fresh", "x := [a]\ny := x + [2]\nx[0] = b\nprint x y\n", "print:[%B] [%A 2]\n"},
	{"concat fresh right", "x := [a]\ny := [2] + x\ny[1] = b\nprint x y\n", "print:[%A] [2 %B]\n"},
	{"repeat fresh", "x := [a]\ny := x * 2\nx[0] = b\nprint x y\n", "print:[%B] [%A %A]\n"},
	{"repeat deep", "x := [[a]]\ny := x * 2\nx[0][0] = b\nprint x y\n", "print:[[%B]] [[%A] [%A]]\n"},
	{"repeat copies apart", "x := [[a]]\ny := x * 2\ny[0][0] = b\nprint x y\n", "print:[[%A]] [[%B] [%A]]\n"},
	{"slice shallow", "x := [[a]]\ny := x[:]\nx[0][0] = b\nprint x y\n", "print:[[%B]] [[%B]]\n"},
	{"concat shallow", "x := [[a]]\ny := x + x\nx[0][0] = b\nprint y\n", "print:[[%B] [%B]]\n"},
	// repetition deep-copies composites also when they sit in an any
	{"repeat any array", "row := [a]\nsrc:[]any\nsrc = [row 0]\nrep := src * 2\nrow[0] = b\nprint src rep\n", "print:[[%B] 0] [[%A] 0 [%A] 0]\n"},
	{"repeat any array apart", "row := [a]\nsrc:[]any\nsrc = [row 0]\nrep := src * 2\nr0 := rep[0].([]num)\nr0[0] = b\nprint row rep\n", "print:[%A] [[%B] 0 [%A] 0]\n"},
	{"repeat any map", "m := {k:a}\nsrc:[]any\nsrc = [m 0]\nrep := src * 2\nm.k = b\nprint src rep\n", "print:[{k:%B} 0] [{k:%A} 0 {k:%A} 0]\n"},
	{"repeat map in array", "m := {k:a}\nrep := [m] * 2\nm.k = b\nrep[0].j = b\nprint m rep\n", "print:{k:%B} [{k:%A j:%B} {k:%A}]\n"},
	{"repeat nested any", "inner:any\ninner = [a]\nrep := [[inner]] * 2\nx := inner.([]num)\nx[0] = b\nprint rep\n", "print:[[[%A]] [[%A]]]\n"},
	{"string slice", "s := \"añb\"\nt := s[1:]\ns = \"x\"\nprint s t a b\n", "print:x ñb %A %B\n"},
}

func zzSubst(tmpl string, a, b float64) string {
	out := ""
	for i := 0; i < len(tmpl); i++ {
		if tmpl[i] == '%' && i+1 < len(tmpl) && (tmpl[i+1] == 'A' || tmpl[i+1] == 'B') {
			if tmpl[i+1] == 'A' {
				out += zzN(a)
			} else {
				out += zzN(b)
			}
			i++
			continue
		}
		out += tmpl[i : i+1]
	}
	return out
}

func ZZC09Alias() {
	sc := zzAliases[zzChoice("scenario", len(zzAliases))]
	src := "a := 1\nb := 2\n" + zzC09Funcs + sc.src + "print a b\n"
	p := &zzPlat{}
	ev := NewEvaluator(p)
	prog := zzMustParse(ev, src, "C09 "+sc.name)
	if prog == nil {
		return
	}
	a, b := zzFloat64("a"), zzFloat64("b")
	zzSetNum(prog, 0, a)
	zzSetNum(prog, 1, b)
	err := ev.Eval(prog)
	zzAssert(err == nil, "C09: scenario runs ("+sc.name+")")
	if err != nil {
		return
	}
	// the trailing `print a b` keeps both globals used; its text is not compared
	got := p.trace[:len(p.trace)-1]
	gs := ""
	for i, t := range got {
		if i > 0 {
			gs += "|"
		}
		gs += t
	}
	want := zzSubst(sc.want, a, b)
	if gs != want {
		zzLog("C09 " + sc.name + ":\n" + src)
	}
	zzAssert(gs == want, "C09: basic values are copied and composites shared ("+sc.name+")")
	zzReach("alias-ok")
	zzWitness("end")
}
