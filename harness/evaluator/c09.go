//go:build verif

package evaluator

import "strings"

// C09 — basic values are copied, composites are shared.
//
// Alias scenarios: how the alias is made x how the update happens x where it
// is observed. The old value a and the new value b are symbolic numbers; the
// expected output follows from one rule: the update shows through the other
// name iff the value is an array or map and the alias was made by a sharing
// operation (declaration, assignment, argument, return, element/map/any
// storage), never through a slice, concatenation or repetition.

type zzAlias struct {
	name string
	src  string // uses globals a (old) and b (new), prints observations
	want string // %A = old value, %B = new value
}

const zzC09Funcs = "func setnum p:num v:num\n    p = v\n    print \"in\" p\nend\n" +
	"func setel p:[]num v:num\n    p[0] = v\nend\n" +
	"func setkey p:{}num v:num\n    p.k = v\nend\n" +
	"func idnum:num p:num\n    return p\nend\n" +
	"func idarr:[]num p:[]num\n    return p\nend\n" +
	"func variadic p:num...\n    p[0] = 99\n    print \"vin\" p\nend\n"

var zzAliases = []zzAlias{
	// ---- basic values are copied ----
	{"num decl", "y := a\na = b\nprint a y\n", "print:%B %A\n"},
	{"num decl reverse", "y := a\ny = b\nprint a y\n", "print:%A %B\n"},
	{"num assign", "y := 0\ny = a\na = b\nprint a y\n", "print:%B %A\n"},
	{"num argument", "setnum a b\nprint a\n", "print:in %B\n|print:%A\n"},
	{"num return", "y := idnum a\na = b\nprint a y\n", "print:%B %A\n"},
	{"num array element in", "arr := [a]\na = b\nprint a arr\n", "print:%B [%A]\n"},
	{"num array element out", "arr := [a]\ny := arr[0]\narr[0] = b\nprint y arr a\n", "print:%A [%B] %A\n"},
	{"num map value in", "m := {k:a}\na = b\nprint a m\n", "print:%B {k:%A}\n"},
	{"num map value out", "m := {k:a}\ny := m.k\nm.k = b\nprint y m a\n", "print:%A {k:%B} %A\n"},
	{"num any", "v:any\nv = a\na = b\nprint a v\n", "print:%B %A\n"},
	{"num any out", "v:any\nv = a\ny := v.(num)\nv = b\nprint y v\n", "print:%A %B\n"},
	{"num loop var", "arr := [a a]\nfor e := range arr\n    e = b\n    print e\nend\nprint arr\n", "print:%B\n|print:%B\n|print:[%A %A]\n"},
	{"num range var", "arr := [a b]\nlast := 0\nfor e := range arr\n    last = e\n    arr[0] = 7\nend\nprint last arr\n", "print:%B [7 %B]\n"},
	{"num variadic", "variadic a b\nprint a b\n", "print:vin [99 %B]\n|print:%A %B\n"},
	{"num index assign copies", "arr := [0]\narr[0] = a\na = b\nprint arr\n", "print:[%A]\n"},
	{"num map assign copies", "m := {k:0}\nm.k = a\na = b\nprint m\n", "print:{k:%A}\n"},
	{"string decl", "s := \"x\"\nt := s\ns = \"y\"\nprint s t a b\n", "print:y x %A %B\n"},
	{"bool decl", "p := a < b\nq := p\np = !p\nprint (p == q) a b\n", "print:false %A %B\n"},
	{"err copy on read", "e := err\nm := errmsg\nn := str2num \"zz\"\nprint e m err n\n", "print:false  true 0\n"},
	{"err copy then reset", "n := str2num \"zz\"\ne := err\nm := errmsg\nn = str2num \"1\"\nprint e (m == \"\") err errmsg n\n", "print:true false false  1\n"},
	{"err assign", "e := true\ne = err\nm := \"x\"\nm = errmsg\nn := str2num \"zz\"\nprint e (m == \"\") err n\n", "print:false true true 0\n"},
	{"err in array", "arr := [err]\nn := str2num \"zz\"\nprint arr err n\n", "print:[false] true 0\n"},
	{"err in map", "m := {k:errmsg}\nn := str2num \"zz\"\nprint (m.k == \"\") err n\n", "print:true true 0\n"},
	{"err argument", "func keep:bool p:bool\n    n := str2num \"zz\"\n    print \"in\" n\n    return p\nend\ny := keep err\nprint y err\n", "print:in 0\n|print:false true\n"},
	{"err any", "v:any\nv = err\nn := str2num \"zz\"\nprint v err n\n", "print:false true 0\n"},
	// err / errmsg stored by assignment into containers, returned from functions, wrapped in any
	{"err map field assign", "m := {k:true}\nm.k = err\nn := str2num \"zz\"\nprint m err n\n", "print:{k:false} true 0\n"},
	{"err map index assign", "m := {k:\"x\"}\nm[\"k\"] = errmsg\nn := str2num \"zz\"\nprint (m.k == \"\") err n\n", "print:true true 0\n"},
	{"err array index assign", "arr := [true]\narr[0] = err\nn := str2num \"zz\"\nprint arr err n\n", "print:[false] true 0\n"},
	{"err returned", "func geterr:bool\n    return err\nend\nm := {k:true}\nm.k = geterr\ne := geterr\nn := str2num \"zz\"\nprint m e err n\n", "print:{k:false} false true 0\n"},
	{"err any map", "m:{}any\nm.k = errmsg\nm.j = err\nn := str2num \"zz\"\nprint m err n\n", "print:{k: j:false} true 0\n"},
	{"errmsg after failure kept", "n := str2num \"zz\"\nm := {k:\"\"}\nm.k = errmsg\narr := [\"\"]\narr[0] = errmsg\nn = str2num \"1\"\nprint m arr err n\n", "print:{k:str2num: cannot parse \"zz\"} [str2num: cannot parse \"zz\"] false 1\n"},
	{"num map field assign copies", "m := {k:0}\nm.k = a\nm[\"j\"] = a\na = b\nprint m a\n", "print:{k:%A j:%A} %B\n"},
	// ---- composites are shared ----
	{"array decl", "x := [a 2]\ny := x\nx[0] = b\nprint x y\n", "print:[%B 2] [%B 2]\n"},
	{"array assign", "x := [a 2]\ny := [0]\ny = x\ny[0] = b\nprint x y\n", "print:[%B 2] [%B 2]\n"},
	{"array argument", "x := [a 2]\nsetel x b\nprint x\n", "print:[%B 2]\n"},
	{"array return", "x := [a 2]\ny := idarr x\ny[0] = b\nprint x\n", "print:[%B 2]\n"},
	{"array in array", "x := [a 2]\nouter := [x]\nx[0] = b\nprint outer\n", "print:[[%B 2]]\n"},
	{"array in map", "x := [a 2]\nm := {k:x}\nm.k[0] = b\nprint x\n", "print:[%B 2]\n"},
	{"array in any", "x := [a 2]\nv:any\nv = x\nx[0] = b\nprint v\n", "print:[%B 2]\n"},
	{"array any out", "x := [a 2]\nv:any\nv = x\ny := v.([]num)\ny[0] = b\nprint x\n", "print:[%B 2]\n"},
	{"array loop var", "outer := [[a] [a]]\nfor e := range outer\n    e[0] = b\nend\nprint outer\n", "print:[[%B] [%B]]\n"},
	{"map decl", "m := {k:a}\nn := m\nn.k = b\nprint m n\n", "print:{k:%B} {k:%B}\n"},
	{"map argument", "m := {k:a}\nsetkey m b\nprint m\n", "print:{k:%B}\n"},
	{"map del through alias", "m := {k:a j:b}\nn := m\ndel n \"k\"\nprint m (has m \"k\")\n", "print:{j:%B} false\n"},
	{"map in array", "m := {k:a}\narr := [m]\narr[0].k = b\nprint m\n", "print:{k:%B}\n"},
	{"map in any", "m := {k:a}\nv:any\nv = m\nm.j = b\nprint v\n", "print:{k:%A j:%B}\n"},
	// ---- slicing, concatenation, repetition produce fresh containers ----
	{"slice fresh", "x := [a 2]\ny := x[:]\ny[0] = b\nx[1] = 3\nprint x y\n", "print:[%A 3] [%B 2]\n"},
	{"slice partial fresh", "x := [a 2 3]\ny := x[1:]\nx[1] = b\nprint x y\n", "print:[%A %B 3] [2 3]\n"},
	{"concat fresh", "x := [a]\ny := x + [2]\nx[0] = b\nprint x y\n", "print:[%B] [%A 2]\n"},
	{"concat fresh right", "x := [a]\ny := [2] + x\ny[1] = b\nprint x y\n", "print:[%A] [2 %B]\n"},
	{"repeat fresh", "x := [a]\ny := x * 2\nx[0] = b\nprint x y\n", "print:[%B] [%A %A]\n"},
	{"repeat deep", "x := [[a]]\ny := x * 2\nx[0][0] = b\nprint x y\n", "print:[[%B]] [[%A] [%A]]\n"},
	{"repeat copies apart", "x := [[a]]\ny := x * 2\ny[0][0] = b\nprint x y\n", "print:[[%A]] [[%B] [%A]]\n"},
	{"slice shallow", "x := [[a]]\ny := x[:]\nx[0][0] = b\nprint x y\n", "print:[[%B]] [[%B]]\n"},
	{"concat shallow", "x := [[a]]\ny := x + x\nx[0][0] = b\nprint y\n", "print:[[%B] [%B]]\n"},
	// repetition deep-copies composites also when they sit in an any
	{"repeat any array", "row := [a]\nsrc:[]any\nsrc = [row 0]\nrep := src * 2\nrow[0] = b\nprint src rep\n", "print:[[%B] 0] [[%A] 0 [%A] 0]\n"},
	{"repeat any array apart", "row := [a]\nsrc:[]any\nsrc = [row 0]\nrep := src * 2\nr0 := rep[0].([]num)\nr0[0] = b\nprint row rep\n", "print:[%A] [[%B] 0 [%A] 0]\n"},
	{"repeat any map", "m := {k:a}\nsrc:[]any\nsrc = [m 0]\nrep := src * 2\nm.k = b\nprint src rep\n", "print:[{k:%B} 0] [{k:%A} 0 {k:%A} 0]\n"},
	{"repeat map in array", "m := {k:a}\nrep := [m] * 2\nm.k = b\nrep[0].j = b\nprint m rep\n", "print:{k:%B} [{k:%A j:%B} {k:%A}]\n"},
	{"repeat nested any", "inner:any\ninner = [a]\nrep := [[inner]] * 2\nx := inner.([]num)\nx[0] = b\nprint rep\n", "print:[[[%A]] [[%A]]]\n"},
	{"string slice", "s := \"añb\"\nt := s[1:]\ns = \"x\"\nprint s t a b\n", "print:x ñb %A %B\n"},
}

func zzSubst(tmpl string, a, b float64) string {
	out := ""
	for i := 0; i < len(tmpl); i++ {
		if tmpl[i] == '%' && i+1 < len(tmpl) && (tmpl[i+1] == 'A' || tmpl[i+1] == 'B') {
			if tmpl[i+1] == 'A' {
				out += zzN(a)
			} else {
				out += zzN(b)
			}
			i++
			continue
		}
		out += tmpl[i : i+1]
	}
	return out
}

func ZZC09Alias() {
	sc := zzAliases[zzChoice("scenario", len(zzAliases))]
	src := "a := 1\nb := 2\n" + zzC09Funcs + sc.src + "print a b\n"
	p := &zzPlat{}
	ev := NewEvaluator(p)
	prog := zzMustParse(ev, src, "C09 "+sc.name)
	if prog == nil {
		return
	}
	a, b := zzFloat64("a"), zzFloat64("b")
	zzSetNum(prog, 0, a)
	zzSetNum(prog, 1, b)
	err := ev.Eval(prog)
	zzAssert(err == nil, "C09: scenario runs ("+sc.name+")")
	if err != nil {
		return
	}
	// the trailing `print a b` keeps both globals used; its text is not compared
	got := p.trace[:len(p.trace)-1]
	gs := ""
	for i, t := range got {
		if i > 0 {
			gs += "|"
		}
		gs += t
	}
	want := zzSubst(sc.want, a, b)
	if gs != want {
		zzLog("C09 " + sc.name + ":\n" + src)
	}
	zzAssert(gs == want, "C09: basic values are copied and composites shared ("+sc.name+")")
	zzReach("alias-ok")
	zzWitness("end")
}

// ZZC09ErrCopies: the built-in err / errmsg are the only basic values the
// evaluator updates in place, so every way of reading them (directly, through
// a group, a call result, an element of a literal) crossed with every way of
// storing a basic value must take a copy: a later conversion that flips them
// never shows through what was stored.
func ZZC09ErrCopies() {
	type srcT struct{ expr, typ string }
	srcs := []srcT{
		{"err", "bool"}, {"(err)", "bool"}, {"(geterr)", "bool"}, {"(idb err)", "bool"}, {"[err][0]", "bool"}, {"{k:err}.k", "bool"}, {"(!(!err))", "bool"},
		{"errmsg", "string"}, {"(errmsg)", "string"}, {"(getmsg)", "string"}, {"(ids errmsg)", "string"}, {"[errmsg][0]", "string"}, {"(errmsg+\"\")", "string"},
	}
	s := srcs[zzChoice("src", len(srcs))]
	startFailed := zzChoice("start", 2) == 1 // err is true / errmsg is set when the value is taken, and reset afterwards
	zero := "true"
	if s.typ == "string" {
		zero = "\"zero\""
	}
	pre := "func geterr:bool\n    return err\nend\nfunc getmsg:string\n    return errmsg\nend\nfunc idb:bool p:bool\n    return p\nend\nfunc ids:string p:string\n    return p\nend\n" +
		"func keep p:" + s.typ + "\n    n := str2num FLIP\n    print \"kept\" p n\nend\n" +
		"func keepv p:" + s.typ + "...\n    n := str2num FLIP\n    print \"kept\" p[0] n\nend\n" +
		"func keepa p:any\n    n := str2num FLIP\n    print \"kept\" p n\nend\n" +
		"func ret:" + s.typ + "\n    return " + s.expr + "\nend\n"
	flip, flipVal := "\"zz\"", "0"
	first := "n0 := str2num \"1\"\n"
	if startFailed {
		flip, flipVal = "\"1\"", "1"
		first = "n0 := str2num \"zz\"\n"
	}
	pre = strings.ReplaceAll(pre, "FLIP", flip)
	old := "false"
	if s.typ == "string" {
		old = ""
	}
	if startFailed {
		old = "true"
		if s.typ == "string" {
			old = "str2num: cannot parse \"zz\""
		}
	}
	mut := "n := str2num " + flip + "\n"
	sink := zzChoice("sink", 16)
	var body, want string
	show := func(decl, obs string) {
		body = decl + mut + "print \"kept\" " + obs + " n\n"
	}
	want = "print:kept " + old + " " + flipVal + "\n"
	switch sink {
	case 0:
		show("y := "+s.expr+"\n", "y")
	case 1:
		show("y := "+zero+"\ny = "+s.expr+"\n", "y")
	case 2:
		show("c := ["+s.expr+"]\n", "c[0]")
	case 3:
		show("c := ["+zero+" "+s.expr+"]\n", "c[1]")
	case 4:
		show("c := {k:"+s.expr+"}\n", "c.k")
	case 5:
		show("c := ["+zero+"]\nc[0] = "+s.expr+"\n", "c[0]")
	case 6:
		show("c := {k:"+zero+"}\nc.k = "+s.expr+"\nc[\"j\"] = "+s.expr+"\n", "c.j")
	case 7:
		show("c:any\nc = "+s.expr+"\n", "c")
	case 8:
		body = "keep " + s.expr + "\n"
	case 9:
		body = "keepv " + s.expr + "\n"
	case 10:
		show("y := ret\n", "y")
	case 11:
		body = "keepa " + s.expr + "\n"
	case 12:
		show("c := ["+zero+"] + ["+s.expr+"]\n", "c[1]")
	case 14: // arguments of a built-in: an earlier argument keeps its value when a later one flips err
		body = "print \"kept\" " + s.expr + " (str2num " + flip + ")\n"
	case 15:
		body = "txt := sprint \"kept\" " + s.expr + " (str2num " + flip + ")\nprint txt\n"
	case 13:
		show("c := [["+s.expr+"]]\nd := {k:{j:"+s.expr+"}}\n", "c[0][0]")
		body += "print \"kept\" d.k.j n\n"
		want += "|" + want
	}
	src := pre + first + "print n0\n" + body + "print err\n"
	p := &zzPlat{}
	ev := NewEvaluator(p)
	err := ev.Run(src)
	if err != nil {
		zzLog(src + err.Error())
	}
	zzAssert(err == nil, "C09 err copies: scenario is accepted and runs")
	if err != nil {
		return
	}
	got := strings.Join(p.trace[1:len(p.trace)-1], "|")
	if got != want {
		zzLog("C09 err copies: want " + want + " got " + got + "\n" + src)
	}
	zzAssert(got == want, "C09 err copies: a stored copy of err / errmsg never follows a later conversion, however the value was read and wherever it was stored")
	zzReach("errcopies-ok")
	zzWitness("end")
}

// ZZC09Fresh: every operation that must produce a fresh array — slices with
// every choice of bounds, concatenation with empty and non-empty operands on
// either side (literals and variables), repetition — against the two
// operations that share (declaration from a variable, a call that returns its
// argument). x and the result are then updated in turn; the old and the new
// element are symbolic numbers.
func ZZC09Fresh() {
	forms := []struct {
		expr  string
		fresh bool
	}{
		{"x[:]", true}, {"x[0:]", true}, {"x[:2]", true}, {"x[0:2]", true}, {"x[-2:]", true},
		{"x + []", true}, {"[] + x", true}, {"e + x", true}, {"x + e", true}, {"e + x + e", true}, {"(e + e) + x", true},
		{"x * 1", true}, {"x[:1] + x[1:]", true}, {"e[:] + x", true},
		{"x", false}, {"(x)", false}, {"idarr x", false},
	}
	f := forms[zzChoice("form", len(forms))]
	nested := zzChoice("nested", 2) == 1
	a, b := zzFloat64("a"), zzFloat64("b")
	var src string
	if !nested {
		src = "a := 1\nb := 2\n" + zzC09Funcs + "x := [a 2]\ne:[]num\ny := " + f.expr + "\nx[0] = b\nprint x y\ny[1] = 9\nprint x y\nprint e\n"
	} else {
		// an array of arrays: the operations are shallow, only repetition copies the nested arrays
		src = "a := 1\nb := 2\nfunc idarr:[][]num p:[][]num\n    return p\nend\nx := [[a] [2]]\ne:[][]num\ny := " + f.expr + "\nx[0] = [b]\nprint x y\ny[1] = [9]\nprint x y\nprint e\n"
	}
	p := &zzPlat{}
	ev := NewEvaluator(p)
	prog := zzMustParse(ev, src, "C09 fresh")
	if prog == nil {
		return
	}
	zzSetNum(prog, 0, a)
	zzSetNum(prog, 1, b)
	err := ev.Eval(prog)
	zzAssert(err == nil, "C09 fresh: scenario runs")
	if err != nil {
		return
	}
	A, B := zzN(a), zzN(b)
	var want string
	switch {
	case !nested && f.fresh:
		want = "print:[" + B + " 2] [" + A + " 2]\n|print:[" + B + " 2] [" + A + " 9]\n|print:[]\n"
	case !nested:
		want = "print:[" + B + " 2] [" + B + " 2]\n|print:[" + B + " 9] [" + B + " 9]\n|print:[]\n"
	case f.fresh:
		want = "print:[[" + B + "] [2]] [[" + A + "] [2]]\n|print:[[" + B + "] [2]] [[" + A + "] [9]]\n|print:[]\n"
	default:
		want = "print:[[" + B + "] [2]] [[" + B + "] [2]]\n|print:[[" + B + "] [9]] [[" + B + "] [9]]\n|print:[]\n"
	}
	if p.out() != want {
		zzLog("C09 fresh " + f.expr + ": want " + want + " got " + p.out())
	}
	zzAssert(p.out() == want, "C09 fresh: slicing, concatenation (also with empty operands) and repetition produce fresh containers; declaration and return share")
	zzReach("fresh-ok")
	zzWitness("end")
}
