//go:build verif

package evaluator

import (
	"errors"
	"strconv"
)

// C10 — lexical scoping and structured control flow.

// ZZC10Structure: generated nestings of if/else, while, the four range forms
// and procedure calls with shadowing declarations, break and return; the
// numeric global and both condition variables are symbolic.
func ZZC10Structure() {
	D := zzParam("D", 2)
	L0, L1, L2 := zzParam("L0", 2), zzParam("L1", 2), zzParam("L2", 1)
	cfg := &zzGenCfg{maxDepth: D, lens: []int{L0, L1, L2, 1}, declFirst: zzParam("DECLFIRST", 0) == 1}
	gp := zzGenProg(cfg)
	src := gp.render(zzLayout{})
	p := &zzPlat{}
	ev := NewEvaluator(p)
	prog := zzMustParse(ev, src, "C10")
	if prog == nil {
		return
	}
	x, c0, c1 := zzFloat64("x"), zzBool("c0"), zzBool("c1")
	zzSetNum(prog, 0, x)
	zzSetBool(prog, 1, c0)
	zzSetBool(prog, 2, c1)
	err := ev.Eval(prog)
	zzAssert(err == nil, "C10: generated program runs without error")
	if err != nil {
		return
	}
	want := zzRunRef(gp, x, c0, c1)
	if p.out() != want {
		zzLog("C10 mismatch on:\n" + src)
	}
	zzAssert(p.out() == want, "C10: names resolve lexically, break leaves the innermost loop, return leaves the call, loops visit exactly their elements")
	zzReach("structure-ok")
	zzWitness("end")
}

// ZZC10Range: numeric range for every finite (start, stop, step): visits, in
// order, start, start+step, ... while < stop (step > 0) or > stop (step < 0);
// a zero step is a panic; the operands are evaluated once, at loop entry.
func ZZC10Range() {
	U := zzParam("U", 3)
	form := zzChoice("form", 3) // 0: range stop; 1: range start stop; 2: range start stop step
	start, stop, step := 0.0, zzFloat64("stop"), 1.0
	zzAssume(stop == stop && stop-stop == 0) // finite
	hdr := "(f b)"
	if form >= 1 {
		start = zzFloat64("start")
		zzAssume(start == start && start-start == 0)
		hdr = "(f a) (f b)"
	}
	if form == 2 {
		step = zzFloat64("step")
		zzAssume(step == step && step-step == 0)
		hdr = "(f a) (f b) (f c)"
	}
	// the reference runs first; ranges with more than U iterations are outside the bound
	want := ""
	if form >= 1 {
		want += "print:f " + zzN(start) + "\n|"
	}
	want += "print:f " + zzN(stop) + "\n|"
	if form == 2 {
		want += "print:f " + zzN(step) + "\n|"
	}
	wantErr := step == 0
	if !wantErr {
		cur := start
		for k := 0; ; k++ {
			if step > 0 && !(cur < stop) {
				break
			}
			if step < 0 && !(cur > stop) {
				break
			}
			if k >= U {
				zzAssume(false)
			}
			want += "print:i " + zzN(cur) + "\n|"
			cur = cur + step
		}
		want += "print:done\n"
	}
	// the body may assign to the loop variable: the next iteration still gets the next step of the range
	assign := []string{"", "    i = i + 1000\n", "    i = a\n    i = i * 2\n"}[zzChoice("assign", 3)]
	src := "a := 1\nb := 2\nc := 3\nfunc f:num n:num\n    print \"f\" n\n    return n\nend\n" +
		"for i := range " + hdr + "\n    print \"i\" i\n" + assign + "    a = a + 100\n    b = b + 100\n    c = c + 100\nend\nprint \"done\"\n"
	p := &zzPlat{}
	ev := NewEvaluator(p)
	prog := zzMustParse(ev, src, "C10 range")
	if prog == nil {
		return
	}
	zzSetNum(prog, 0, start)
	zzSetNum(prog, 1, stop)
	zzSetNum(prog, 2, step)
	err := ev.Eval(prog)
	if wantErr {
		zzReach("zero-step")
		zzAssert(err != nil && errors.Is(err, ErrRangevalue), "C10 range: a zero step is the range-value panic")
		zzAssert(p.out()+"|" == want, "C10 range: operands are evaluated once before the panic")
	} else {
		zzReach("range-ok")
		zzAssert(err == nil, "C10 range: a non-zero step runs")
		zzAssert(p.out() == want, "C10 range: visits exactly the steps of the range as evaluated once at loop entry")
	}
	_ = strconv.Itoa
	zzWitness("end")
}

// ZZC10Funcs: generated programs with a recursive function, a procedure,
// parameters and locals that shadow globals, calls from inside loops and
// before the definition, `return` and `break` at any nesting depth of the
// callee; x, y and the condition variable are symbolic.
func ZZC10Funcs() {
	D := zzParam("D", 2)
	cfg := &zz2Cfg{maxDepth: D, lens: []int{zzParam("L0", 2), zzParam("L1", 1), zzParam("L2", 1), 1, 1}, recDepth: zzParam("R", 1), all: zzParam("ALL", 0) == 1, mainSkew: zzParam("SKEW", 1)}
	gp := zz2GenProg(cfg)
	src := gp.render()
	p := &zzPlat{}
	ev := NewEvaluator(p)
	prog := zzMustParse(ev, src, "C10 funcs")
	if prog == nil {
		return
	}
	x, y, c0 := zzFloat64("x"), zzFloat64("y"), zzBool("c0")
	zzSetNum(prog, 0, x)
	zzSetNum(prog, 1, y)
	zzSetBool(prog, 2, c0)
	err := ev.Eval(prog)
	zzAssert(err == nil, "C10 funcs: generated program runs without error")
	if err != nil {
		return
	}
	want, _ := zz2RunRef(gp, x, y, c0)
	if p.out() != want {
		zzLog("C10 funcs mismatch on:\n" + src)
	}
	zzAssert(p.out() == want, "C10 funcs: a function body sees its parameters, its own locals and the globals, also under recursion; return leaves exactly the current call, break the innermost loop")
	if gp.b1 != nil {
		zzReach("funcs-f")
	}
	if gp.b3 != nil {
		zzReach("funcs-g")
	}
	zzWitness("end")
}


// ZZC10LoopExit: every way of leaving a loop of every kind whose body
// shadows an outer variable — running to completion, break, break inside a
// nested if, return from the enclosing function — at top level, inside a
// block and inside a function: after the loop the outer variable is visible
// again with its own value, and a variable declared after the loop is an
// ordinary variable of the enclosing scope (visible to functions when global).
func ZZC10LoopExit() {
	heads := []string{"for i := range 3\n", "for i := range [7 8 9]\n", "for i := range \"abc\"\n", "for i := range {p:1 q:2}\n", "n := 0\nwhile n < 3\n    n = n + 1\n    i := n\n"}
	head := heads[zzChoice("loop", len(heads))]
	exits := []string{"", "    break\n", "    if c\n        break\n    end\n", "    if !c\n        break\n    end\n"}
	exit := exits[zzChoice("exit", len(exits))]
	place := zzChoice("place", 4) // 0 top level, 1 inside an if block that shadows x, 2 inside a function, 3 inside a while body that shadows x
	x, c := zzFloat64("x"), zzBool("c")
	loop := head + "    print \"in\" i x\n    x := 50\n    print \"shadow\" x\n" + exit + "end\n"
	after := "print \"after\" x\nlate := x + 1\nshow\nprint late\n"
	var src string
	switch place {
	case 0:
		src = "x := 1\nc := true\n" + loop + after
	case 1: // the loop sits in a block that itself shadows x: after that block the outer x is back
		src = "x := 1\nc := true\nif true\n    x := 70\n    print \"block\" x\n" + zzIndentLines(loop+"print \"inblock\" x\n", "    ") + "end\nprint \"after\" x\nlate := x + 1\nshow\nprint late\n"
	case 2:
		src = "x := 1\nc := true\nfunc f\n" + zzIndentLines(loop+"print \"after\" x\n", "    ") + "end\nf\nprint \"after\" x\nlate := x + 1\nshow\nprint late\n"
	case 3:
		src = "x := 1\nc := true\nw := 0\nwhile w < 2\n    w = w + 1\n    x := 70\n    print \"block\" x w\n" + zzIndentLines(loop, "    ") + "end\nprint \"after\" x\nlate := x + 1\nshow\nprint late\n"
	}
	src += "func show\n    print \"show\" x c\nend\n"
	p := &zzPlat{}
	ev := NewEvaluator(p)
	prog := zzMustParse(ev, src, "C10 loop exit")
	if prog == nil {
		return
	}
	zzSetNum(prog, 0, x)
	zzSetBool(prog, 1, c)
	err := ev.Eval(prog)
	zzAssert(err == nil, "C10 loop exit: program runs")
	if err != nil {
		zzLog(src + err.Error())
		return
	}
	// the lines after the loop: after <x>, show <x> <c>, <x+1>
	n := len(p.trace)
	X := zzN(x)
	ok := n >= 3 && p.trace[n-1] == "print:"+zzN(x+1)+"\n" && p.trace[n-2] == "print:show "+X+" "+strconv.FormatBool(c)+"\n" && p.trace[n-3] == "print:after "+X+"\n"
	if !ok {
		zzLog("C10 loop exit:\n" + src + p.out())
	}
	zzAssert(ok, "C10 loop exit: however a loop is left, the variables its body declared are gone and the outer ones are visible again, also to functions called afterwards")
	zzReach("loopexit-ok")
	zzWitness("end")
}
