//go:build verif

package evaluator

import (
	"errors"
	"sort"
	"strings"

	"evylang.dev/evy/pkg/parser"
)

// C02 — accepted programs never go wrong (type soundness).
//
// Unit layer: every built-in and the evaluator's composite primitives are
// called with arguments of their declared Evy types — numbers and bools
// fully symbolic (NaN, ±Inf, −0, huge, fractional), strings and composites
// from class sets. The engine reports every host panic (nil dereference,
// failed Go type assertion, index / makeslice out of range, explicit panic).

var zzStrClass = []string{"", "a", "añ✓", "%v %d %s", "12"}

// zzArgOf builds a value of Evy type t; vary selects the class.
func zzArgOf(t *parser.Type, depth int) value {
	switch {
	case t == parser.NUM_TYPE:
		return &numVal{V: zzFloat64("num")}
	case t == parser.BOOL_TYPE:
		return &boolVal{V: zzBool("bool")}
	case t == parser.STRING_TYPE:
		return &stringVal{V: zzStrClass[zzChoice("str", len(zzStrClass))]}
	case t == parser.ANY_TYPE:
		inner := []*parser.Type{parser.NUM_TYPE, parser.STRING_TYPE, parser.BOOL_TYPE,
			{Name: parser.ARRAY, Sub: parser.NUM_TYPE}, {Name: parser.MAP, Sub: parser.NUM_TYPE}}
		it := inner[zzChoice("anyinner", len(inner))]
		return &anyVal{V: zzArgOf(it, depth+1), T: it}
	case t.Name == parser.ARRAY:
		sub := t.Sub
		if sub == nil {
			sub = parser.NUM_TYPE // generic array: any element type, nums here
		}
		n := zzChoice("arrlen", 3)
		els := make([]value, n)
		for k := range els {
			els[k] = zzArgOf(sub, depth+1)
		}
		return &arrayVal{Elements: &els}
	case t.Name == parser.MAP:
		sub := t.Sub
		if sub == nil {
			sub = parser.NUM_TYPE
		}
		n := zzChoice("maplen", 3)
		m := &mapVal{Pairs: map[string]value{}, Order: &[]string{}}
		for k := 0; k < n; k++ {
			m.SetKey([]string{"k", "size"}[k], zzArgOf(sub, depth+1))
		}
		return m
	}
	panic("zzArgOf: unknown type " + t.String())
}

// zzWellFormed: the dynamic shape of v matches Evy type t; an any never
// wraps an any and carries a concrete type.
func zzWellFormed(v value, t *parser.Type) bool {
	switch x := v.(type) {
	case *numVal:
		return t == parser.NUM_TYPE
	case *stringVal:
		return t == parser.STRING_TYPE
	case *boolVal:
		return t == parser.BOOL_TYPE
	case *anyVal:
		if t != parser.ANY_TYPE || x.T == nil || x.T == parser.ANY_TYPE {
			return false
		}
		if _, nested := x.V.(*anyVal); nested {
			return false
		}
		return zzWellFormed(x.V, x.T)
	case *arrayVal:
		if t.Name != parser.ARRAY {
			return false
		}
		for _, e := range *x.Elements {
			if t.Sub != nil && !zzWellFormed(e, t.Sub) {
				return false
			}
		}
		return true
	case *mapVal:
		if t.Name != parser.MAP || len(x.Pairs) != len(*x.Order) {
			return false
		}
		for _, e := range x.Pairs {
			if t.Sub != nil && !zzWellFormed(e, t.Sub) {
				return false
			}
		}
		return true
	}
	return false
}


// ZZC02Builtins: one call of every built-in with arguments of its declared types.
func ZZC02Builtins() {
	p := &zzPlat{}
	ev := NewEvaluator(p)
	var names []string
	for n := range ev.builtins.Funcs {
		names = append(names, n)
	}
	sort.Strings(names)
	name := names[zzChoice("builtin", len(names))]
	b := ev.builtins.Funcs[name]
	var args []value
	for _, prm := range b.Decl.Params {
		args = append(args, zzArgOf(prm.Type(), 0))
	}
	if b.Decl.VariadicParam != nil {
		n := zzChoice("varargs", 4)
		for k := 0; k < n; k++ {
			args = append(args, zzArgOf(b.Decl.VariadicParam.Type(), 0))
		}
	}
	zzReach("builtin-" + name)
	res, err := b.Func(ev.scope, args)
	if err != nil {
		zzAssert(zzAcceptableErr(err), "C02: a built-in fails only with a documented Evy panic, exit or failed test, never an internal error ("+name+")")
		zzAssert(!errors.Is(err, ErrInternal), "C02: no internal error from a well-typed call ("+name+")")
		zzWitness("end-err")
		return
	}
	rt := b.Decl.ReturnType
	if rt != parser.NONE_TYPE && rt != nil {
		zzAssert(res != nil && zzWellFormed(res, rt), "C02: the result of a built-in has its declared type ("+name+")")
	}
	zzWitness("end")
}

// ZZC02Primitives: composite primitives with symbolic numbers.
func ZZC02Primitives() {
	ev := NewEvaluator(&zzPlat{})
	_ = ev
	arrT := &parser.Type{Name: parser.ARRAY, Sub: parser.NUM_TYPE}
	switch zzChoice("prim", 4) {
	case 0: // repetition with any count
		arr := zzArgOf(arrT, 0).(*arrayVal)
		n := zzFloat64("count")
		zzAssume(!(n > 8 && n < 1e12)) // counts 0..8 and >= 1e12 (and all negatives, fractions, NaN, infinities)
		res, err := evalBinaryArrayExpr(parser.OP_ASTERISK, arr, &numVal{V: n})
		if err != nil {
			zzAssert(errors.Is(err, ErrBadRepetition), "C02: a bad repetition count is the documented panic")
		} else {
			zzAssert(zzWellFormed(res, arrT), "C02: repetition yields an array of the same type")
		}
		zzReach("repeat")
	case 1: // concatenation
		a, b := zzArgOf(arrT, 0).(*arrayVal), zzArgOf(arrT, 0).(*arrayVal)
		res, err := evalBinaryArrayExpr(parser.OP_PLUS, a, b)
		zzAssert(err == nil && zzWellFormed(res, arrT), "C02: concatenation yields an array of the same type")
		zzAssert(len(*res.(*arrayVal).Elements) == len(*a.Elements)+len(*b.Elements), "C02: concatenation length")
		zzReach("concat")
	case 2: // any round trip: valueFromAny / unwrapBasicvalue
		f := zzFloat64("f")
		v, err := valueFromAny(parser.NUM_TYPE, f)
		zzAssert(err == nil && zzWellFormed(v, parser.NUM_TYPE), "C02: event payload conversion for num")
		_, err = valueFromAny(parser.NUM_TYPE, "s")
		zzAssert(err != nil && errors.Is(err, ErrPanic), "C02: a payload of the wrong type is a documented panic")
		zzReach("fromany")
	case 3: // zero values of every type are well formed
		types := []*parser.Type{parser.NUM_TYPE, parser.STRING_TYPE, parser.BOOL_TYPE, parser.ANY_TYPE, arrT,
			{Name: parser.MAP, Sub: parser.ANY_TYPE}, {Name: parser.ARRAY, Sub: &parser.Type{Name: parser.MAP, Sub: parser.NUM_TYPE}}}
		t := types[zzChoice("type", len(types))]
		zzAssert(zzWellFormed(zero(t), t), "C02: the zero value of every type is well formed (any holds false:bool)")
		zzReach("zero")
	}
	zzWitness("end")
}

// ZZC02Programs: accepted programs exercising untyped empty literals, any
// wrapping, type assertions and variadics end only in a documented way, and
// typeof reports the static type.
var zzC02Progs = []struct{ src, out string }{
	{"a:[]any\na = [1 \"s\" [] {}]\nprint (typeof a) (typeof a[2]) (typeof a[3])\n", "print:[]any []any {}any\n"},
	{"func f a:any...\n    print (len a) (typeof a)\nend\nf\nf 1 [] {}\n", "print:0 []any\n|print:3 []any\n"},
	{"m:{}[]any\nm.k = []\nm.j = [1 []]\nprint (typeof m.k) (typeof m.j[1]) m\n", "print:[]any []any {k:[] j:[1 []]}\n"},
	{"v:any\nprint (typeof v) v\nv = []\nprint (typeof v)\nv = {a:[]}\nprint (typeof v)\n", "print:bool false\n|print:[]any\n|print:{}[]any\n"},
	{"x := [] + []\ny := [[]] + [[1]]\nprint (typeof x) x y\n", "print:[]any [] [[] [1]]\n"},
	{"a:[]any\na = [1] + [2]\nb := ([[]]) + [[2] []]\nprint a b\n", "print:[1 2] [[] [2] []]\n"},
	{"func g:[]num\n    return []\nend\nr := g\nr = r + [1]\nprint r (typeof r)\n", "print:[1] []num\n"},
	{"a := [1 2 3]\nfor e := range a[1:]\n    print (typeof e) e\nend\n", "print:num 2\n|print:num 3\n"},
	{"v:any\nv = [1]\nw := v.([]num)\nw[0] = 2\nprint v w (typeof v)\n", "print:[2] [2] []num\n"},
}

func zzC02ProgramTexts() []string {
	var out []string
	for _, c := range zzC02Progs {
		out = append(out, c.src)
	}
	return out
}

func ZZC02Programs() {
	c := zzC02Progs[zzChoice("prog", len(zzC02Progs))]
	p := &zzPlat{}
	ev := NewEvaluator(p)
	err := ev.Run(c.src)
	if err != nil {
		zzLog(c.src + err.Error())
	}
	zzAssert(err == nil, "C02 programs: accepted program runs to completion")
	if p.out() != c.out {
		zzLog("C02 program output:\n" + c.src + "got: " + p.out())
	}
	zzAssert(p.out() == c.out, "C02 programs: run-time types (typeof) are the static types")
	zzReach("program-ok")
	zzWitness("end")
}

// zzAuditTypes: after a run, every global holds a value of the static type
// the parser assigned to its declaration, and no any wraps an any.
func zzAuditTypes(ev *Evaluator, prog *parser.Program, what string) {
	for _, st := range prog.Statements {
		var v *parser.Var
		switch d := st.(type) {
		case *parser.InferredDeclStmt:
			v = d.Decl.Var
		case *parser.TypedDeclStmt:
			v = d.Decl.Var
		}
		if v == nil {
			continue
		}
		val, ok := ev.global.get(v.Name)
		if !ok {
			continue // declaration not reached (panic / exit earlier)
		}
		zzAssert(zzWellFormed(val, v.Type()), "C02 audit: global "+v.Name+" holds a value of its static type "+v.Type().String()+" ("+what+")")
	}
}

// ZZC02Audit: every program text of the other evaluator harnesses (alias
// scenarios, determinism programs, inference literals, type-soundness
// programs) ends in a documented way and leaves well-typed globals.
func ZZC02Audit() {
	var texts []string
	for _, c := range zzAliases {
		texts = append(texts, "a := 1\nb := 2\n"+zzC09Funcs+c.src+"print a b\n")
	}
	texts = append(texts, zzC08Progs...)
	texts = append(texts, zzC02ProgramTexts()...)
	for _, l := range zzC04InferLiterals() {
		texts = append(texts, "x := [1]\ny := [\"s\"]\nv := "+l+"\nprint (typeof v)\nprint x y\n")
	}
	// repetition copies any-typed elements with their concrete type tag
	texts = append(texts,
		"r := [1 \"b\" true] * 2\nprint (typeof r[0]) (typeof r[4]) (r[0] == r[3]) r[5].(bool) (r[1] == r[4])\n",
		"x:any\nx = [1]\nr := [x {k:x}] * 2\nprint (typeof r[0]) (typeof r[3]) r[2].([]num) (r[0] == r[2])\n",
		"r := [[1 \"b\"]] * 2\nprint (typeof r[1][0]) (r[0] == r[1]) r[1][1].(string)\n")
	// untyped empty literals of every nesting depth stored in an any, an inferred variable, an
	// array element and passed to an any parameter: the value carries a complete concrete type
	wantOut := map[int]string{}
	for _, e := range zzEmpties {
		wantOut[len(texts)] = "print:" + e.shape + "any " + e.shape + "any []" + e.shape + "any " + e.shape + "any\n"
		texts = append(texts, "u:any\nu = "+e.lit+"\nw := "+e.lit+"\nz := ["+e.lit+"]\nprint (typeof u) (typeof w) (typeof z) (typeof z[0])\n")
	}
	k := zzChoice("text", len(texts))
	p := &zzPlat{}
	ev := NewEvaluator(p)
	prog, err := zzParse(ev, texts[k])
	if w, ok := wantOut[k]; ok {
		zzAssert(err == nil, "C02 audit: empty literals are accepted in any, inferred and element positions")
		if err == nil {
			rerr := ev.Eval(prog)
			if p.out() != w {
				zzLog("C02 audit empties: want " + w + " got " + p.out())
			}
			zzAssert(rerr == nil && p.out() == w, "C02 audit: an untyped empty literal of any nesting depth gets a complete concrete type (its structure over any)")
			zzAuditTypes(ev, prog, "text "+strconvItoa(k))
		}
		zzReach("audit-ok")
		zzWitness("end")
		return
	}
	if err != nil {
		zzReach("audit-rejected")
		zzWitness("end-rejected")
		return
	}
	if len(prog.Statements) >= 2 {
		if d, ok := prog.Statements[0].(*parser.InferredDeclStmt); ok {
			if _, isNum := d.Decl.Value.(*parser.NumLiteral); isNum && d.Decl.Var.Name == "a" {
				zzSetNum(prog, 0, zzFloat64("a"))
				zzSetNum(prog, 1, zzFloat64("b"))
			}
		}
	}
	rerr := ev.Eval(prog)
	if rerr != nil {
		zzAssert(zzAcceptableErr(rerr), "C02 audit: an accepted program ends only with a documented panic, exit or failed test")
	}
	zzAuditTypes(ev, prog, "text "+strconvItoa(k))
	zzReach("audit-ok")
	zzWitness("end")
}

func strconvItoa(k int) string {
	if k == 0 {
		return "0"
	}
	s := ""
	for k > 0 {
		s = string(rune('0'+k%10)) + s
		k /= 10
	}
	return s
}

// ZZC02Shadow: a block of every kind that first uses an outer variable and
// then declares a variable of the same name with a different type. Every
// iteration of a loop body starts from a fresh scope: the outer variable (of
// the outer static type) is what the body sees before its own declaration.
func ZZC02Shadow() {
	vals := []struct{ lit, typ, show string }{
		{"1", "num", "1"}, {"\"s\"", "string", "s"}, {"true", "bool", "true"}, {"[1 2]", "[]num", "[1 2]"}, {"{k:1}", "{}num", "{k:1}"},
	}
	o := vals[zzChoice("outer", len(vals))]
	in := vals[zzChoice("inner", len(vals))]
	zzAssume(o.typ != in.typ)
	heads := []struct {
		open  []string
		iters int
		name  string
	}{
		{[]string{"if true"}, 1, "if"},
		{[]string{"if false", "    print 0", "else if true"}, 1, "elseif"},
		{[]string{"if false", "    print 0", "else"}, 1, "else"},
		{[]string{"w := 0", "while w < 2", "    w = w + 1"}, 2, "while"},
		{[]string{"for range 2"}, 2, "fornum"},
		{[]string{"for e := range [7 8]", "    print e"}, 2, "forarray"},
		{[]string{"for e := range \"ab\"", "    print e"}, 2, "forstring"},
		{[]string{"for e := range {p:1 q:2}", "    print e"}, 2, "formap"},
	}
	h := heads[zzChoice("block", len(heads))]
	lines := []string{"x := " + o.lit}
	lines = append(lines, h.open...)
	lines = append(lines, "    print (typeof x) x", "    x := "+in.lit, "    print (typeof x) x", "end", "print (typeof x) x")
	src := strings.Join(lines, "\n") + "\n"
	want := ""
	extra := map[string][]string{"forarray": {"7", "8"}, "forstring": {"a", "b"}, "formap": {"p", "q"}}
	for k := 0; k < h.iters; k++ {
		if ex, ok := extra[h.name]; ok {
			want += "print:" + ex[k] + "\n|"
		}
		want += "print:" + o.typ + " " + o.show + "\n|print:" + in.typ + " " + in.show + "\n|"
	}
	want += "print:" + o.typ + " " + o.show + "\n"
	p := &zzPlat{}
	ev := NewEvaluator(p)
	err := ev.Run(src)
	if err != nil || p.out() != want {
		zzLog("C02 shadow:\n" + src + "got: " + p.out() + "\nwant: " + want)
	}
	zzAssert(err == nil, "C02 shadow: an accepted program that shadows a variable with another type in a "+h.name+" block runs to completion")
	zzAssert(p.out() == want, "C02 shadow: every value has the static type of the variable the parser resolved it to ("+h.name+")")
	zzReach("shadow-" + h.name)
	zzWitness("end")
}

// ZZC02Index: indexing and slicing programs over arrays and strings that
// contain multi-byte characters, with any float64 as the index: they end with
// a result or a documented panic, never a host crash.
func ZZC02Index() {
	strs := []string{"", "a", "ñ", "añ✓"}
	s := strs[zzChoice("str", len(strs))]
	n := len([]rune(s))
	forms := []string{
		"print s[i]\n", "print s[i:]\n", "print s[:i]\n", "print a[i]\n", "print a[i:]\n", "print a[:i]\n",
		"for c := range s[i:]\n    print c\nend\n", "a[i] = \"z\"\nprint a\n",
	}
	form := zzChoice("form", len(forms))
	arr := "["
	for k, r := range []rune(s) {
		if k > 0 {
			arr += " "
		}
		arr += "\"" + string(r) + "\""
	}
	arr += "]"
	if n == 0 {
		arr = "[\"\"][:0]"
	}
	src := "i := 0\ns := \"" + s + "\"\na := " + arr + "\n" + forms[form] + "print (len s) (len a) i\n"
	p := &zzPlat{}
	ev := NewEvaluator(p)
	prog := zzMustParse(ev, src, "C02 index")
	if prog == nil {
		return
	}
	f := zzFloat64("i")
	zzSetNum(prog, 0, f)
	err := ev.Eval(prog)
	isIndex := form == 0 || form == 3 || form == 7
	var ok bool
	if isIndex {
		_, ok = zzSpecIndex(f, n)
	} else {
		_, ok = zzSpecBound(f, n)
	}
	if err != nil {
		zzAssert(errors.Is(err, ErrPanic), "C02 index: an index or slice fails only with a documented Evy panic")
		zzReach("index-panic")
	} else {
		zzReach("index-ok")
	}
	zzAssert((err == nil) == ok, "C02 index: index/slice programs succeed exactly for integral positions inside the rune length")
	zzWitness("end")
}

// ZZC02Assert: a type assertion on an any succeeds exactly when the asserted
// type is identical to the concrete type the value carries (typeof) — also
// for empty arrays and maps, whose concrete type is the one they were created
// with — and is the documented panic otherwise; the result then has the
// asserted type and shares the container.
func ZZC02Assert() {
	vals := []struct{ setup, expr, typ string }{
		{"", "1", "num"}, {"", "\"s\"", "string"}, {"", "true", "bool"},
		{"", "[1]", "[]num"}, {"", "[\"s\"]", "[]string"}, {"", "[1 \"s\"]", "[]any"}, {"", "[]", "[]any"}, {"", "{}", "{}any"},
		{"", "{a:1}", "{}num"}, {"", "[[1]]", "[][]num"}, {"", "[[]]", "[][]any"},
		{"en:[]num\n", "en", "[]num"}, {"es:[]string\n", "es", "[]string"}, {"em:{}num\n", "em", "{}num"}, {"ea:{}any\n", "ea", "{}any"},
		{"m := {}\n", "m", "{}any"}, {"ee:[][]num\n", "ee", "[][]num"},
	}
	targets := []string{"num", "string", "bool", "[]num", "[]string", "[]any", "{}num", "{}any", "{}string", "[][]num", "[][]any"}
	v := vals[zzChoice("val", len(vals))]
	t := targets[zzChoice("target", len(targets))]
	src := v.setup + "x:any\nx = " + v.expr + "\nprint (typeof x)\ny := x.(" + t + ")\nprint (typeof y) (y == y)\n"
	p := &zzPlat{}
	ev := NewEvaluator(p)
	err := ev.Run(src)
	first := ""
	if len(p.trace) > 0 {
		first = p.trace[0]
	}
	zzAssert(first == "print:"+v.typ+"\n", "C02 assert: an any carries the concrete type of the value stored in it")
	if t == v.typ {
		zzReach("assert-ok")
		zzAssert(err == nil && len(p.trace) == 2 && p.trace[1] == "print:"+t+" true\n", "C02 assert: asserting the concrete type succeeds and gives a value of that type")
	} else {
		zzReach("assert-panics")
		if err == nil {
			zzLog("C02 assert accepted: " + src)
		}
		zzAssert(err != nil && zzAcceptableErr(err) && len(p.trace) == 1, "C02 assert: asserting any other type is the documented run-time panic")
	}
	zzWitness("end")
}
