//go:build verif

package evaluator

import (
	"strings"

	"evylang.dev/evy/pkg/parser"
)

// C04 — static typing rules are exactly those of the specification.
//
// Types are descriptors ("num", "[]any", "{}[]string", ...). The oracle is
// the specification's assignability rules, operator table and inference
// rules as a small function over descriptors; the implementation is the real
// parser (acceptance) and evaluator (typeof of accepted programs).

var zzBasic = []string{"num", "string", "bool", "any"}

func zzTypes(depth int) []string {
	ts := append([]string{}, zzBasic...)
	prev := zzBasic
	for d := 0; d < depth; d++ {
		var next []string
		for _, t := range prev {
			next = append(next, "[]"+t, "{}"+t)
		}
		ts = append(ts, next...)
		prev = next
	}
	return ts
}

func zzIsArr(t string) bool  { return strings.HasPrefix(t, "[]") }
func zzIsMap(t string) bool  { return strings.HasPrefix(t, "{}") }
func zzIsComp(t string) bool { return zzIsArr(t) || zzIsMap(t) }
func zzSub(t string) string  { return t[2:] }

// zzLit renders a constant literal whose inferred type is t ("" if none exists).
func zzLit(t string) string {
	switch t {
	case "num":
		return "1"
	case "string":
		return "\"s\""
	case "bool":
		return "true"
	case "any":
		return ""
	}
	sub := zzSub(t)
	var el1, el2 string
	if sub == "any" {
		el1, el2 = "1", "\"s\"" // mixed elements infer any
	} else {
		el1 = zzLit(sub)
		if el1 == "" {
			return ""
		}
	}
	if zzIsArr(t) {
		if el2 != "" {
			return "[" + el1 + " " + el2 + "]"
		}
		return "[" + el1 + "]"
	}
	if el2 != "" {
		return "{a:" + el1 + " b:" + el2 + "}"
	}
	return "{a:" + el1 + "}"
}

// zzConvertible: a constant of type t2 converts to t when both have the same
// composite structure down to where t reaches any.
func zzConvertible(t, t2 string) bool {
	if t == "any" {
		return true
	}
	if zzIsArr(t) && zzIsArr(t2) || zzIsMap(t) && zzIsMap(t2) {
		return zzConvertible(zzSub(t), zzSub(t2))
	}
	return t == t2
}

// zzAcceptsEmpty: the empty literal e ("[]", "{}", "[[]]", "[{}]", "{a:[]}" as
// structure strings "[]", "{}", "[][]", "[]{}", "{}[]") converts to t.
func zzAcceptsEmpty(t, e string) bool {
	if t == "any" {
		return true
	}
	if e == "" {
		return true // the innermost empty literal takes any subtype
	}
	if strings.HasPrefix(e, "[]") && zzIsArr(t) || strings.HasPrefix(e, "{}") && zzIsMap(t) {
		return zzAcceptsEmpty(zzSub(t), e[2:])
	}
	return false
}

func zzInferEmpty(e string) string { return e + "any" }

// zzAcceptsEmptyStrict: t has exactly the structure e down to where e ends.
func zzAcceptsEmptyStrict(t, e string) bool {
	if e == "" {
		return true
	}
	if strings.HasPrefix(e, "[]") && zzIsArr(t) || strings.HasPrefix(e, "{}") && zzIsMap(t) {
		return zzAcceptsEmptyStrict(zzSub(t), e[2:])
	}
	return false
}

var zzEmpties = []struct{ lit, shape string }{
	{"[]", "[]"}, {"{}", "{}"}, {"[[]]", "[][]"}, {"[{}]", "[]{}"}, {"{a:[]}", "{}[]"},
	{"[[[]]]", "[][][]"}, {"[[{}]]", "[][]{}"}, {"{a:[[]]}", "{}[][]"}, {"[[[[]]]]", "[][][][]"}, {"{a:{b:{}}}", "{}{}{}"}, {"[[] [[]]]", "[][][]"},
}

// ZZC04Assign: target type x kind of value x value type x context.
func ZZC04Assign() {
	D := zzParam("D", 1)
	types := zzTypes(D)
	t := types[zzChoice("target", len(types))]
	kind := zzChoice("kind", 20) // 0 variable, 1 constant literal, 2 empty literal, 3 expression of variables, 4/5 expression mixing a constant and a variable, 6/7/8 literal that contains a composite variable
	ctx := zzChoice("ctx", 4)   // 0 typed decl + assignment, 1 parameter, 2 variadic parameter, 3 return value
	var val, setup, dyn string
	want := false
	rtPanic := false // the accepted program ends in a documented panic (element of an empty composite)
	switch kind {
	case 0, 3, 4, 5:
		t2 := types[zzChoice("valtype", len(types))]
		setup = "w:" + t2 + "\n"
		val = "w"
		dyn = t2
		if t2 == "any" {
			dyn = "bool" // the zero value of any is false
		}
		if kind >= 4 {
			// an expression that contains a variable is treated like a variable
			lit := zzLit(t2)
			if lit == "" || !(t2 == "num" || t2 == "string" || zzIsArr(t2)) {
				zzAssume(false)
			}
			if kind == 4 {
				val = lit + "+w"
			} else {
				val = "w+" + lit
			}
		}
		if kind == 3 {
			// an expression of variables behaves like a variable
			switch {
			case t2 == "num", t2 == "string", zzIsArr(t2):
				val = "w+w"
			case t2 == "bool":
				val = "(w and w)"
			default:
				zzAssume(false)
			}
		}
		want = t == t2 || t == "any"
	case 9, 10, 11, 12, 13, 14, 15:
		// values taken out of variables, call results, type assertions and
		// loop variables are assignable like variables
		t2 := types[zzChoice("valtype", len(types))]
		dyn = t2
		if t2 == "any" {
			dyn = "bool"
		}
		lit := zzLit(t2)
		switch kind {
		case 9: // element of an array variable
			setup, val = "w:[]"+t2+"\nw = w + w\n", "w[0]"
			rtPanic = true
		case 10: // field of a map variable
			setup, val = "w:{}"+t2+"\nw = w\n", "w.k"
			rtPanic = true
		case 11: // call result, grouped
			if lit == "" {
				zzAssume(false)
			}
			setup, val = "func g:"+t2+"\n    return "+lit+"\nend\n", "(g)"
		case 12: // type assertion
			if t2 == "any" || lit == "" {
				zzAssume(false)
			}
			setup, val = "x:any\nx = "+lit+"\n", "x.("+t2+")"
		case 13: // slice of a variable
			if !zzIsArr(t2) && t2 != "string" {
				zzAssume(false)
			}
			setup, val = "w:"+t2+"\n", "w[:]"
		case 14: // element or slice of a literal
			if lit == "" {
				zzAssume(false)
			}
			val = "[" + lit + "][0]"
		case 15:
			if lit == "" || !zzIsArr(t2) {
				zzAssume(false)
			}
			val = lit + "[:]"
		}
		want = t == t2 || t == "any"
	case 16, 17:
		// constant expressions convert like constants
		t2 := types[zzChoice("valtype", len(types))]
		lit := zzLit(t2)
		if lit == "" || !(zzIsArr(t2) || t2 == "num" || t2 == "string" && kind == 16) {
			zzAssume(false)
		}
		if kind == 16 {
			val = lit + "+" + lit
		} else {
			val = lit + "*2"
		}
		dyn = t2
		want = zzConvertible(t, t2)
	case 18, 19:
		// an element or a slice of a literal made of untyped empty literals still is an
		// untyped empty literal: it takes the type the context requires
		e := zzEmpties[zzChoice("empty", len(zzEmpties))]
		if kind == 18 {
			val = "[" + e.lit + "][0]"
		} else {
			if !strings.HasPrefix(e.shape, "[]") {
				zzAssume(false)
			}
			val = e.lit + []string{"[:]", "[0:]"}[zzChoice("slice", 2)]
		}
		dyn = zzInferEmpty(e.shape)
		// a value taken out of a literal is assignable like a variable (§10.7): its untyped
		// innermost part takes whatever subtype is required, but nothing converts to any on the way
		want = t == "any" || zzAcceptsEmptyStrict(t, e.shape)
	case 6, 7, 8:
		// a literal that contains a composite variable is not a constant:
		// it is assignable like a variable of its own type. (Basic-typed
		// variables inside literals are left out: the implementation
		// converts them like constants and the specification's wording on
		// them is open to both readings.)
		t2 := types[zzChoice("valtype", len(types))]
		if !zzIsComp(t2) {
			zzAssume(false)
		}
		setup = "w:" + t2 + "\n"
		switch kind {
		case 6:
			val, dyn = "[w]", "[]"+t2
		case 7:
			val, dyn = "{k:w}", "{}"+t2
		case 8:
			lit := zzLit(t2)
			if lit == "" {
				zzAssume(false)
			}
			val, dyn = "[w "+lit+"]", "[]"+t2
		}
		want = t == dyn || t == "any"
	case 1:
		t2 := types[zzChoice("valtype", len(types))]
		val = zzLit(t2)
		if val == "" {
			zzAssume(false)
		}
		dyn = t2
		want = zzConvertible(t, t2)
	case 2:
		e := zzEmpties[zzChoice("empty", len(zzEmpties))]
		val = e.lit
		dyn = zzInferEmpty(e.shape)
		want = zzAcceptsEmpty(t, e.shape)
	}
	var src string
	switch ctx {
	case 0:
		src = setup + "v:" + t + "\nv = " + val + "\nprint (typeof v)\n"
	case 1:
		src = setup + "func f p:" + t + "\n    print (typeof p)\nend\nf " + val + "\n"
	case 2:
		src = setup + "func f p:" + t + "...\n    print (typeof p[0])\nend\nf " + val + "\n"
	case 3:
		src = setup + "func f:" + t + "\n    return " + val + "\nend\nr := f\nprint (typeof r)\n"
	}
	p := &zzPlat{}
	ev := NewEvaluator(p)
	_, err := zzParse(ev, src)
	if (err == nil) != want {
		msg := ""
		if err != nil {
			msg = err.Error()
		}
		zzLog("C04 assign: want accept=" + map[bool]string{true: "true", false: "false"}[want] + "\n" + src + msg)
	}
	zzAssert((err == nil) == want, "C04: a value is accepted exactly when the specification's assignability rules say so")
	if err != nil {
		zzReach("rejected")
		zzWitness("end-rejected")
		return
	}
	zzReach("accepted")
	// typeof of the accepted program: the target's type, or for `any` the value's own type
	p2 := &zzPlat{}
	ev2 := NewEvaluator(p2)
	rerr := ev2.Run(src)
	if rtPanic {
		zzAssert(rerr != nil && zzAcceptableErr(rerr), "C04: accepted program ends with the documented panic")
		zzWitness("end")
		return
	}
	zzAssert(rerr == nil, "C04: accepted program runs")
	wantType := t
	if t == "any" {
		wantType = dyn
	}
	zzAssert(p2.out() == "print:"+wantType+"\n", "C04: typeof reports the static type (for any: the concrete type of the value)")
	zzWitness("end")
}

// ZZC04Infer: inferred declarations pick the strictest common type.
var zzC04InferCases = []struct{ lit, typ string }{
	{"1", "num"}, {"\"s\"", "string"}, {"true", "bool"},
	{"[1 2]", "[]num"}, {"[1 \"s\"]", "[]any"}, {"[]", "[]any"}, {"{}", "{}any"},
	{"[[1] [2]]", "[][]num"}, {"[[1] [\"s\"]]", "[][]any"}, {"[[1] []]", "[][]num"}, {"[[] [1]]", "[][]num"},
	{"[[] []]", "[][]any"}, {"[[1] 2]", "[]any"}, {"[[1] {a:1}]", "[]any"},
	{"{a:1 b:2}", "{}num"}, {"{a:1 b:\"s\"}", "{}any"}, {"{a:[1] b:[]}", "{}[]num"}, {"{a:[] b:[1]}", "{}[]num"},
	{"{a:[1] b:[\"s\"]}", "{}[]any"}, {"{a:{} b:{c:1}}", "{}{}num"}, {"[{a:1} {}]", "[]{}num"},
	{"[[[1]] [[]]]", "[][][]num"}, {"[[[]] [[1]]]", "[][][]num"}, {"[[[1]] [[\"s\"]]]", "[][][]any"},
	// variables have fixed types: no common composite type other than any
	{"[x y]", "[]any"}, {"[x x]", "[][]num"}, {"[x [1]]", "[][]num"}, {"[x [\"s\"]]", "[]any"}, {"[x []]", "[][]num"},
	{"{a:x b:y}", "{}any"}, {"{a:[1] b:x c:[\"s\"]}", "{}any"}, {"{a:[1] b:[\"s\"] c:x}", "{}any"}, {"{a:x b:[1] c:[\"s\"]}", "{}any"},
}

func zzC04InferLiterals() []string {
	var out []string
	for _, c := range zzC04InferCases {
		out = append(out, c.lit)
	}
	return out
}

func ZZC04Infer() {
	c := zzC04InferCases[zzChoice("case", len(zzC04InferCases))]
	src := "x := [1]\ny := [\"s\"]\nv := " + c.lit + "\nprint (typeof v)\nprint x y\n"
	p := &zzPlat{}
	ev := NewEvaluator(p)
	zzMapOrder(true) // inference must not depend on Go map iteration order
	prog, err := zzParse(ev, src)
	zzMapOrder(false)
	if err != nil {
		zzLog(src + err.Error())
	}
	zzAssert(err == nil, "C04 infer: literal is accepted")
	if err != nil {
		return
	}
	rerr := ev.Eval(prog)
	zzAssert(rerr == nil, "C04 infer: program runs")
	if len(p.trace) > 0 {
		if p.trace[0] != "print:"+c.typ+"\n" {
			zzLog("C04 infer " + c.lit + " got " + p.trace[0])
		}
		zzAssert(p.trace[0] == "print:"+c.typ+"\n", "C04 infer: inference picks the strictest common type")
	}
	zzReach("infer-ok")
	zzWitness("end")
}

// ZZC04Ops: operator table, index, slice, dot, type assertion, condition and
// range operand typing, for operands that are variables of each type.
func ZZC04Ops() {
	types := zzTypes(1)
	ctx := zzChoice("ctx", 9)
	t1 := types[zzChoice("t1", len(types))]
	src := "a:" + t1 + "\n"
	want := false
	resType := ""
	switch ctx {
	case 8: // binary operator with at least one literal operand (constants and empty literals)
		ops := []string{"+", "-", "*", "/", "%", "<", "<=", ">", ">=", "==", "!=", "and", "or"}
		op := ops[zzChoice("op", len(ops))]
		pool := []struct{ lit, k string }{
			{"1", "num"}, {"\"s\"", "string"}, {"true", "bool"}, {"[1]", "[]num"}, {"{a:1}", "{}num"}, {"[1 \"s\"]", "[]any"},
			{"[]", "E[]"}, {"{}", "E{}"},
		}
		l, r := zzChoice("lop", len(pool)+1), zzChoice("rop", len(pool))
		src = ""
		var lx, lk string
		if l == len(pool) {
			lx, lk = "a", t1
			src = "a:" + t1 + "\n"
		} else {
			lx, lk = pool[l].lit, pool[l].k
			if t1 != "num" {
				zzAssume(false) // t1 is unused: explore this case once
			}
		}
		rx, rk := pool[r].lit, pool[r].k
		if zzChoice("swap", 2) == 1 {
			lx, lk, rx, rk = rx, rk, lx, lk
		}
		src += "r := " + lx + " " + op + " " + rx + "\nprint (typeof r)\n"
		isArrK := func(k string) bool { return k == "E[]" || zzIsArr(k) }
		isMapK := func(k string) bool { return k == "E{}" || zzIsMap(k) }
		match := lk == rk || lk == "E[]" && isArrK(rk) || rk == "E[]" && isArrK(lk) || lk == "E{}" && isMapK(rk) || rk == "E{}" && isMapK(lk)
		conc := func(k, other string) string { // the type an empty literal takes next to other
			if k == "E[]" || k == "E{}" {
				if other == "E[]" || other == "E{}" || !zzIsComp(other) {
					return k[1:] + "any"
				}
				return other
			}
			return k
		}
		switch op {
		case "+":
			want = match && (lk == "num" || lk == "string" || isArrK(lk))
			resType = conc(lk, rk)
		case "*":
			want = lk == "num" && rk == "num" || isArrK(lk) && rk == "num"
			resType = conc(lk, rk)
		case "-", "/", "%":
			want = lk == "num" && rk == "num"
			resType = "num"
		case "<", "<=", ">", ">=":
			want = match && (lk == "num" || lk == "string")
			resType = "bool"
		case "==", "!=":
			want = match
			resType = "bool"
		default:
			want = lk == "bool" && rk == "bool"
			resType = "bool"
		}
	case 0: // binary operator
		ops := []string{"+", "-", "*", "/", "%", "<", "<=", ">", ">=", "==", "!=", "and", "or"}
		op := ops[zzChoice("op", len(ops))]
		t2 := types[zzChoice("t2", len(types))]
		src += "b:" + t2 + "\nr := a " + op + " b\nprint (typeof r)\n"
		switch op {
		case "+":
			want = t1 == t2 && (t1 == "num" || t1 == "string" || zzIsArr(t1))
			resType = t1
		case "*":
			want = t1 == "num" && t2 == "num" || zzIsArr(t1) && t2 == "num"
			resType = t1
		case "-", "/", "%":
			want = t1 == "num" && t2 == "num"
			resType = "num"
		case "<", "<=", ">", ">=":
			want = t1 == t2 && (t1 == "num" || t1 == "string")
			resType = "bool"
		case "==", "!=":
			want = t1 == t2
			resType = "bool"
		default:
			want = t1 == "bool" && t2 == "bool"
			resType = "bool"
		}
	case 1: // unary
		op := []string{"-", "!"}[zzChoice("uop", 2)]
		src += "r := " + op + "a\nprint (typeof r)\n"
		want = op == "-" && t1 == "num" || op == "!" && t1 == "bool"
		resType = t1
	case 2: // index
		t2 := types[zzChoice("t2", len(types))]
		src += "i:" + t2 + "\nr := a[i]\nprint (typeof r)\n"
		switch {
		case zzIsArr(t1):
			want, resType = t2 == "num", zzSub(t1)
		case t1 == "string":
			want, resType = t2 == "num", "string"
		case zzIsMap(t1):
			want, resType = t2 == "string", zzSub(t1)
		}
	case 3: // slice
		t2 := types[zzChoice("t2", len(types))]
		src += "i:" + t2 + "\nr := a[i:]\nprint (typeof r)\n"
		want = (zzIsArr(t1) || t1 == "string") && t2 == "num"
		resType = t1
	case 4: // dot
		src += "r := a.k\nprint (typeof r)\n"
		want = zzIsMap(t1)
		if want {
			resType = zzSub(t1)
		}
	case 5: // type assertion
		t2 := types[zzChoice("t2", len(types))]
		src += "r := a.(" + t2 + ")\nprint (typeof r)\n"
		want = t1 == "any" && t2 != "any"
		resType = t2
	case 6: // condition
		src += "if a\n    print 1\nend\nwhile a\n    print 2\nend\n"
		want = t1 == "bool"
	case 7: // range operand
		src += "for e := range a\n    print e\nend\n"
		want = t1 == "num" || t1 == "string" || zzIsComp(t1)
	}
	p := &zzPlat{}
	ev := NewEvaluator(p)
	prog, err := zzParse(ev, src)
	if (err == nil) != want {
		msg := ""
		if err != nil {
			msg = err.Error()
		}
		zzLog("C04 ops:\n" + src + msg)
	}
	zzAssert((err == nil) == want, "C04 ops: an operand combination is accepted exactly when the specification's tables allow it")
	if err == nil && resType != "" && (ctx <= 5 || ctx == 8) {
		// static result type as recorded by the parser for the declared r
		zzReach("ops-accepted")
		for _, st := range prog.Statements {
			if d, ok := st.(*parser.InferredDeclStmt); ok && d.Decl.Var.Name == "r" {
				zzAssert(d.Decl.Var.Type().String() == resType, "C04 ops: static result type is the one the specification gives")
			}
		}
		if ctx == 8 {
			rerr := ev.Eval(prog)
			if rerr == nil {
				zzAssert(p.out() == "print:"+resType+"\n", "C04 ops: the value of an accepted operation has the static result type")
			} else {
				zzAssert(zzAcceptableErr(rerr), "C04 ops: an accepted operation on literals ends with a result or a documented panic")
			}
		}
	}
	zzWitness("end")
}

// ---- inference over generated literals, against a set-based statement of "the strictest common type" ----

type zzInfEl struct {
	src   string
	kind  byte   // 'c' constant, 'e' empty literal (typ = its shape), 'v' variable, 'l' literal that contains a composite variable (treated like a variable)
	typ   string // own type (shape for 'e')
	basic bool
}

var zzInfPool = []zzInfEl{
	{"1", 'c', "num", true}, {"\"s\"", 'c', "string", true}, {"[1]", 'c', "[]num", false}, {"[\"s\"]", 'c', "[]string", false},
	{"[1 \"s\"]", 'c', "[]any", false}, {"[]", 'e', "[]", false}, {"{}", 'e', "{}", false}, {"{a:1}", 'c', "{}num", false},
	{"x", 'v', "[]num", false}, {"y", 'v', "[]string", false}, {"z", 'v', "[]any", false}, {"w", 'v', "[][]num", false},
	{"m", 'v', "{}num", false}, {"u", 'v', "any", true}, {"[[1]]", 'c', "[][]num", false}, {"[[]]", 'e', "[][]", false},
	{"[x]", 'l', "[][]num", false}, {"[z]", 'l', "[][]any", false}, {"[[1] []]", 'c', "[][]num", false}, {"[[1] [\"s\"]]", 'c', "[][]any", false},
	{"[x []]", 'l', "[][]num", false}, {"true", 'c', "bool", true}, {"[{}]", 'e', "[]{}", false}, {"{k:x}", 'l', "{}[]num", false},
}

const zzInfSetup = "x := [1]\ny := [\"s\"]\nz := [1 \"s\"]\nw := [[1]]\nm := {a:1}\nu:any\n"
const zzInfUses = "print x y z w m u\n"

func zzInfAssignable(e zzInfEl, t string) bool {
	switch e.kind {
	case 'v', 'l':
		return t == e.typ || t == "any"
	case 'c':
		return zzConvertible(t, e.typ)
	}
	return zzAcceptsEmpty(t, e.typ)
}

// zzGen: t is at least as general as u.
func zzGen(t, u string) bool {
	if t == "any" || t == u {
		return true
	}
	if zzIsArr(t) && zzIsArr(u) || zzIsMap(t) && zzIsMap(u) {
		return zzGen(zzSub(t), zzSub(u))
	}
	return false
}

func zzMinimal(ts []string) []string {
	var out []string
	for _, t := range ts {
		min := true
		for _, u := range ts {
			if u != t && zzGen(t, u) {
				min = false
			}
		}
		if min {
			out = append(out, t)
		}
	}
	return out
}

// zzStrictestCommon: the least general type every element is assignable to;
// where empty literals leave a position unconstrained it is `any`.
func zzStrictestCommon(els []zzInfEl) string {
	cands := zzTypes(4)
	var common []string
	for _, t := range cands {
		ok := true
		for _, e := range els {
			if !zzInfAssignable(e, t) {
				ok = false
			}
		}
		if ok {
			common = append(common, t)
		}
	}
	min := zzMinimal(common)
	if len(min) == 1 {
		return min[0]
	}
	var upper []string
	for _, t := range cands {
		ok := true
		for _, m := range min {
			if !zzGen(t, m) {
				ok = false
			}
		}
		if ok {
			upper = append(upper, t)
		}
	}
	j := zzMinimal(upper)
	if len(j) != 1 {
		panic("zzStrictestCommon: no unique join")
	}
	return j[0]
}

func zzInfTypeof(src string) (string, bool) {
	p := &zzPlat{}
	ev := NewEvaluator(p)
	prog, err := zzParse(ev, src)
	if err != nil {
		zzLog(src + err.Error())
		return err.Error(), false
	}
	if rerr := ev.Eval(prog); rerr != nil || len(p.trace) == 0 {
		return "run failed", false
	}
	return p.trace[0], true
}

// ZZC04InferGen: array and map literals over every K-tuple of the element
// pool (constants, empty literals, variables of several types, literals
// that contain variables): the inferred type is the strictest common type,
// the same for every order of the elements, and never a parser crash.
func ZZC04InferGen() {
	K := zzParam("K", 2)
	n := 2 + zzChoice("n", K-1)
	form := zzChoice("form", 2) // 0 array literal, 1 map literal
	els := make([]zzInfEl, n)
	for i := range els {
		els[i] = zzInfPool[zzChoice("el", len(zzInfPool))]
	}
	render := func(order []int) string {
		var parts []string
		for pos, i := range order {
			if form == 0 {
				parts = append(parts, els[i].src)
			} else {
				parts = append(parts, "k"+string(rune('a'+pos))+":"+els[i].src)
			}
		}
		lit := "[" + strings.Join(parts, " ") + "]"
		if form == 1 {
			lit = "{" + strings.Join(parts, " ") + "}"
		}
		return zzInfSetup + "v := " + lit + "\nprint (typeof v)\n" + zzInfUses
	}
	orders := [][]int{{0, 1}, {1, 0}}
	if n == 3 {
		orders = [][]int{{0, 1, 2}, {0, 2, 1}, {1, 0, 2}, {1, 2, 0}, {2, 0, 1}, {2, 1, 0}}
	}
	// (the engine iterates Go maps in key order, and the keys are named by position: permuting
	// the elements therefore also permutes the order in which parseMapLiteral combines the types)
	first, ok := zzInfTypeof(render(orders[0]))
	zzAssert(ok, "C04 infergen: an inferred declaration from a literal is accepted and runs")
	if !ok {
		return
	}
	for _, o := range orders[1:] {
		got, ok := zzInfTypeof(render(o))
		if got != first {
			zzLog("C04 infergen order dependence: " + render(orders[0]) + " -> " + first + " but " + render(o) + " -> " + got)
		}
		zzAssert(ok && got == first, "C04 infergen: the inferred type does not depend on the order of the elements")
	}
	// the oracle applies unless a literal that contains variables would have to be generalised:
	// whether such a literal is converted piecewise or counts as a variable of its own type is
	// left open by the specification
	common := zzStrictestCommon(els)
	ambiguous := false
	for _, e := range els {
		if e.kind == 'l' && e.typ != common {
			ambiguous = true
		}
	}
	if !ambiguous {
		want := "[]" + common
		if form == 1 {
			want = "{}" + want[2:]
		}
		if first != "print:"+want+"\n" {
			zzLog("C04 infergen: want " + want + " got " + first + " for " + render(orders[0]))
		}
		zzAssert(first == "print:"+want+"\n", "C04 infergen: inference picks the strictest common type of the elements")
		zzReach("infergen-oracle")
	}
	// the same literal assigned where the any-based composite of its structure is required:
	// accepted exactly when it is a constant (no variable inside) or already has that type
	inferred := strings.TrimSuffix(strings.TrimPrefix(first, "print:"), "\n")
	target := zzAnyfied(inferred)
	allConst, hasBasicVar := true, false
	for _, e := range els {
		if e.kind == 'v' || e.kind == 'l' {
			allConst = false
		}
		if e.kind == 'v' && e.basic {
			hasBasicVar = true
		}
	}
	if !hasBasicVar {
		wantAcc := allConst || target == inferred
		for _, o := range orders {
			src := render(o)
			src = strings.Replace(src, "v := ", "v:"+target+"\nv = ", 1)
			p := &zzPlat{}
			ev := NewEvaluator(p)
			_, err := zzParse(ev, src)
			if (err == nil) != wantAcc {
				zzLog("C04 infergen assign: want accept " + map[bool]string{true: "yes", false: "no"}[wantAcc] + " for\n" + src)
			}
			zzAssert((err == nil) == wantAcc, "C04 infergen: a literal is assignable to the any-based composite of its structure exactly when it contains no variable (in every order of its elements)")
		}
		zzReach("infergen-assign")
	}
	zzReach("infergen-ok")
	zzWitness("end")
}

// zzAnyfied: t with its final basic subtype replaced by any.
func zzAnyfied(t string) string {
	if zzIsComp(t) {
		return t[:2] + zzAnyfied(zzSub(t))
	}
	return "any"
}

// ZZC04Range: `for ... range` takes one string, array or map operand, or one
// to three num operands (docs/spec.md, "For"); every other combination of
// operand count and operand types is rejected, whether the operands are
// variables or literals and whether or not a loop variable is declared.
func ZZC04Range() {
	pool := []struct{ src, typ string }{
		{"n", "num"}, {"s", "string"}, {"b", "bool"}, {"v", "any"}, {"an", "[]num"}, {"aa", "[]any"}, {"mn", "{}num"},
		{"1", "num"}, {"\"s\"", "string"}, {"true", "bool"}, {"[1]", "[]num"}, {"{a:1}", "{}num"}, {"[]", "[]any"}, {"{}", "{}any"}, {"(n+1)", "num"}, {"an[0]", "num"},
	}
	k := 1 + zzChoice("nops", zzParam("RN", 3)+1) // 1..4 operands
	ops := ""
	allNum := true
	first := ""
	for i := 0; i < k; i++ {
		o := pool[zzChoice("rop", len(pool))]
		if i == 0 {
			first = o.typ
		}
		if o.typ != "num" {
			allNum = false
		}
		ops += " " + o.src
	}
	withVar := zzChoice("loopvar", 2) == 1
	hdr := "for range" + ops
	body := "    print 1\n"
	if withVar {
		hdr = "for e := range" + ops
		body = "    print e\n"
	}
	src := "n := 2\ns := \"ab\"\nb := true\nv:any\nan := [1 2]\naa := [1 \"s\"]\nmn := {a:1}\nprint n s b v an aa mn\n" + hdr + "\n" + body + "end\n"
	want := k <= 3 && allNum || k == 1 && (first == "string" || zzIsComp(first))
	p := &zzPlat{}
	ev := NewEvaluator(p)
	_, err := zzParse(ev, src)
	if (err == nil) != want {
		msg := ""
		if err != nil {
			msg = err.Error()
		}
		zzLog("C04 range: want accepted=" + map[bool]string{true: "yes", false: "no"}[want] + "\n" + hdr + "\n" + msg)
	}
	zzAssert((err == nil) == want, "C04 range: a range clause is accepted exactly for one string, array or map operand or one to three num operands")
	if err == nil {
		zzReach("range-accepted")
		rerr := ev.Run(src)
		zzAssert(rerr == nil || zzAcceptableErr(rerr), "C04 range: an accepted range clause runs")
	} else {
		zzReach("range-rejected")
	}
	zzWitness("end")
}

// ZZC04Params: parameters are variables: a plain parameter, a variadic
// parameter (an array of its element type), an element of a variadic
// parameter and a loop variable over it are assignable exactly to an identical
// type or to any — in assignments, return values and arguments inside the
// function body.
func ZZC04Params() {
	types := zzTypes(zzParam("D", 1))
	t := types[zzChoice("target", len(types))]
	t2 := types[zzChoice("ptype", len(types))]
	arg := zzLit(t2)
	if arg == "" {
		arg = "1" // an any parameter takes anything
	}
	var sig, val, srcType string
	loopOpen, loopClose, ind := "", "", "    "
	switch zzChoice("psrc", 4) {
	case 0:
		sig, val, srcType = "p:"+t2, "p", t2
	case 1:
		sig, val, srcType = "p:"+t2+"...", "p", "[]"+t2
	case 2:
		sig, val, srcType = "p:"+t2+"...", "p[0]", t2
	case 3:
		sig, val, srcType = "p:"+t2+"...", "e", t2
		loopOpen, loopClose, ind = "    for e := range p\n", "    end\n", "        "
	}
	want := t == srcType || t == "any"
	var src string
	switch zzChoice("pctx", 3) {
	case 0:
		src = "func f " + sig + "\n" + loopOpen + ind + "v:" + t + "\n" + ind + "v = " + val + "\n" + ind + "print (typeof v)\n" + loopClose + "end\nf " + arg + "\n"
	case 1:
		if loopOpen != "" {
			zzAssume(false) // a return inside the loop needs another return after it: covered by the other contexts
		}
		src = "func f:" + t + " " + sig + "\n    return " + val + "\nend\nr := f " + arg + "\nprint (typeof r)\n"
	case 2:
		src = "func g q:" + t + "\n    print (typeof q)\nend\nfunc f " + sig + "\n" + loopOpen + ind + "g " + val + "\n" + loopClose + "end\nf " + arg + "\n"
	}
	p := &zzPlat{}
	ev := NewEvaluator(p)
	_, err := zzParse(ev, src)
	if (err == nil) != want {
		msg := ""
		if err != nil {
			msg = err.Error()
		}
		zzLog("C04 params: want accept=" + map[bool]string{true: "yes", false: "no"}[want] + "\n" + src + msg)
	}
	zzAssert((err == nil) == want, "C04 params: a parameter, a variadic parameter and its elements are assignable like variables: to an identical type or to any")
	if err == nil {
		zzReach("params-accepted")
		rerr := NewEvaluator(&zzPlat{}).Run(src)
		zzAssert(rerr == nil || zzAcceptableErr(rerr), "C04 params: the accepted program runs")
	} else {
		zzReach("params-rejected")
	}
	zzWitness("end")
}
