//go:build verif

package evaluator

import (
	"strconv"
	"strings"
)

// A small program generator and an independent, deliberately naive
// reference interpreter for the statement forms of Evy, written from
// docs/spec.md (lexical block scopes, function scope = parameters + locals
// + globals, break leaves the innermost loop, return leaves the call, while
// tests before every iteration, the four range forms).
//
// Programs use one numeric global x (symbolic), two symbolic bool globals
// c0/c1 for conditions, block-local shadowing declarations of x, and a
// procedure g that is defined after its first use.

type zzSt struct {
	kind string // print assign decl if while fornum forarr forstr formap break return call
	k    int    // literal for decl / loop bound
	body []*zzSt
	els  []*zzSt
	elif []*zzSt // else-if branch (condition cond2), between body and els
	cond2 string
	cond string // c0 | c1 | !c0
	lv   string // loop variable
}

type zzGenCfg struct {
	maxDepth  int
	lens      []int // max statements per block at each depth
	declFirst bool  // nested two-statement blocks begin with a shadowing declaration
}

func zzGenBlock(cfg *zzGenCfg, depth int, inLoop, inFunc bool, ctr *int) []*zzSt {
	maxLen := cfg.lens[depth]
	n := 1 + zzChoice("blocklen", maxLen)
	var out []*zzSt
	declared := false
	for i := 0; i < n; i++ {
		last := i == n-1
		kinds := []string{"print", "assign"}
		if depth >= 1 && !declared {
			kinds = append(kinds, "decl") // at most one shadowing declaration per block
		}
		if depth < cfg.maxDepth {
			kinds = append(kinds, "if", "ifelse", "ifelif", "while", "fornum", "forarr", "forstr", "formap")
		}
		if !inFunc && depth <= 1 {
			kinds = append(kinds, "call")
		}
		if last && inLoop {
			kinds = append(kinds, "break")
		}
		if last && inFunc {
			kinds = append(kinds, "return")
		}
		if cfg.declFirst && depth >= 1 && n == 2 && i == 0 {
			// two-statement nested blocks start with the shadowing declaration:
			// whatever follows (break, return, loops, calls) runs under a shadowed x
			kinds = []string{"decl"}
		}
		kind := kinds[zzChoice("stmt", len(kinds))]
		*ctr++
		st := &zzSt{kind: kind, k: *ctr}
		if kind == "decl" {
			declared = true
		}
		switch kind {
		case "if", "ifelse", "ifelif":
			if kind == "ifelif" {
				// if / else if / else: the first branch is a fixed probe, the else-if branch is generated;
				// both condition variables are symbolic, so one choice of conditions covers all outcomes
				st.kind = "if"
				st.cond, st.cond2 = "c0", "c1"
				*ctr++
				st.body = []*zzSt{{kind: "print", k: *ctr}}
				st.elif = zzGenBlock(cfg, depth+1, inLoop, inFunc, ctr)
				if zzChoice("elifelse", 2) == 1 {
					*ctr++
					st.els = []*zzSt{{kind: "assign", k: *ctr}}
				}
				break
			}
			st.cond = []string{"c0", "c1", "!c0"}[zzChoice("cond", 3)]
			st.body = zzGenBlock(cfg, depth+1, inLoop, inFunc, ctr)
			if kind == "ifelse" {
				st.kind = "if"
				// the else branch holds simple statements only (keeps the space quadratic-free)
				st.els = zzGenBlock(cfg, cfg.maxDepth, inLoop, inFunc, ctr)
			}
		case "while", "fornum", "forarr", "forstr", "formap":
			st.lv = "i" + strconv.Itoa(*ctr)
			st.body = zzGenBlock(cfg, depth+1, true, inFunc, ctr)
		}
		if !last && zzTerminates(st) {
			zzAssume(false) // the parser rejects unreachable code after it
		}
		out = append(out, st)
	}
	return out
}

// zzTerminates mirrors the spec's "always terminates" notion: break, return,
// or an if/else all of whose branches end that way.
func zzTerminates(st *zzSt) bool {
	switch st.kind {
	case "break", "return":
		return true
	case "if":
		if st.els == nil {
			return false
		}
		if st.elif != nil && !zzTerminates(st.elif[len(st.elif)-1]) {
			return false
		}
		return zzTerminates(st.body[len(st.body)-1]) && zzTerminates(st.els[len(st.els)-1])
	}
	return false
}

type zzLayout struct {
	extraSpace bool // two spaces between tokens where one is required
	blank      int  // blank lines between statements
	comments   bool // trailing and own-line comments
	tab        bool // indentation with a tab (source only; formatter normalises)
	trail      bool // blanks and a tab after every line (after the comment, if any)
	crlf       bool // lines end in CR LF
}

func zzRenderBlock(sb *strings.Builder, sts []*zzSt, ind int, lo zzLayout) {
	pad := strings.Repeat("    ", ind)
	if lo.tab {
		pad = strings.Repeat("\t", ind)
	}
	sp := " "
	if lo.extraSpace {
		sp = "  "
	}
	eol := "\n"
	if lo.crlf {
		eol = "\r\n"
	}
	if lo.trail {
		eol = "  \t" + eol
	}
	if lo.comments {
		eol = " // c" + eol
	}
	for i, st := range sts {
		if i > 0 {
			for b := 0; b < lo.blank; b++ {
				sb.WriteString("\n")
			}
			if lo.comments {
				sb.WriteString(pad + "// own line\n")
			}
		}
		switch st.kind {
		case "print":
			sb.WriteString(pad + "print" + sp + "\"p" + strconv.Itoa(st.k) + "\"" + sp + "x" + eol)
		case "assign":
			sb.WriteString(pad + "x" + sp + "=" + sp + "x" + sp + "+" + sp + "1" + eol)
		case "decl":
			// the enclosing x is visible up to the declaration, the new x after it
			sb.WriteString(pad + "print" + sp + "\"b" + strconv.Itoa(st.k) + "\"" + sp + "x" + eol)
			sb.WriteString(pad + "x" + sp + ":=" + sp + strconv.Itoa(st.k*10) + eol)
			sb.WriteString(pad + "print" + sp + "\"d" + strconv.Itoa(st.k) + "\"" + sp + "x" + eol)
		case "call":
			sb.WriteString(pad + "g" + eol)
		case "break":
			sb.WriteString(pad + "break" + eol)
		case "return":
			sb.WriteString(pad + "return" + eol)
		case "if":
			sb.WriteString(pad + "if" + sp + st.cond + eol)
			zzRenderBlock(sb, st.body, ind+1, lo)
			if st.elif != nil {
				sb.WriteString(pad + "else if" + sp + st.cond2 + eol)
				zzRenderBlock(sb, st.elif, ind+1, lo)
			}
			if st.els != nil {
				sb.WriteString(pad + "else" + eol)
				zzRenderBlock(sb, st.els, ind+1, lo)
			}
			sb.WriteString(pad + "end" + eol)
		case "while":
			sb.WriteString(pad + st.lv + sp + ":=" + sp + "0" + eol)
			sb.WriteString(pad + "while" + sp + st.lv + sp + "<" + sp + "2" + eol)
			sb.WriteString(pad + "    " + st.lv + sp + "=" + sp + st.lv + sp + "+" + sp + "1" + eol)
			zzRenderBlock(sb, st.body, ind+1, lo)
			sb.WriteString(pad + "end" + eol)
		case "fornum":
			sb.WriteString(pad + "for" + sp + st.lv + sp + ":=" + sp + "range" + sp + "2" + eol)
			sb.WriteString(pad + "    print" + sp + "\"n\"" + sp + st.lv + eol)
			zzRenderBlock(sb, st.body, ind+1, lo)
			sb.WriteString(pad + "end" + eol)
		case "forarr":
			sb.WriteString(pad + "for" + sp + st.lv + sp + ":=" + sp + "range" + sp + "[7" + sp + "8]" + eol)
			sb.WriteString(pad + "    print" + sp + "\"a\"" + sp + st.lv + eol)
			zzRenderBlock(sb, st.body, ind+1, lo)
			sb.WriteString(pad + "end" + eol)
		case "forstr":
			sb.WriteString(pad + "for" + sp + st.lv + sp + ":=" + sp + "range" + sp + "\"yñ\"" + eol)
			sb.WriteString(pad + "    print" + sp + "\"s\"" + sp + st.lv + eol)
			zzRenderBlock(sb, st.body, ind+1, lo)
			sb.WriteString(pad + "end" + eol)
		case "formap":
			sb.WriteString(pad + "for" + sp + st.lv + sp + ":=" + sp + "range" + sp + "{q:1" + sp + "p:2}" + eol)
			sb.WriteString(pad + "    print" + sp + "\"m\"" + sp + st.lv + eol)
			zzRenderBlock(sb, st.body, ind+1, lo)
			sb.WriteString(pad + "end" + eol)
		}
	}
	if lo.comments && ind > 0 {
		// a comment-only line closes every nested block (also after break / return)
		sb.WriteString(pad + "// block end\n")
	}
}

type zzProg struct {
	main []*zzSt
	fn   []*zzSt // body of procedure g (nil: no g)
}

func zzGenProg(cfg *zzGenCfg) *zzProg {
	ctr := 0
	p := &zzProg{}
	p.main = zzGenBlock(cfg, 0, false, false, &ctr)
	if zzUsesCall(p.main) {
		p.fn = zzGenBlock(cfg, 1, false, true, &ctr)
	}
	return p
}

func zzUsesCall(sts []*zzSt) bool {
	for _, s := range sts {
		if s.kind == "call" || zzUsesCall(s.body) || zzUsesCall(s.els) || zzUsesCall(s.elif) {
			return true
		}
	}
	return false
}

// render: declarations of the globals, the main code, a final print, and the
// procedure g after its uses.
func (p *zzProg) render(lo zzLayout) string {
	var sb strings.Builder
	sb.WriteString("x := 1\nc0 := true\nc1 := false\n")
	zzRenderBlock(&sb, p.main, 0, lo)
	sb.WriteString("print \"end\" x c0 c1\n")
	if p.fn != nil {
		if lo.blank > 0 {
			sb.WriteString("\n")
		}
		sb.WriteString("func g\n")
		zzRenderBlock(&sb, p.fn, 1, lo)
		sb.WriteString("end\n")
	}
	return sb.String()
}

// ---- reference interpreter ----

type zzRef struct {
	scopes []map[string]*float64 // innermost last
	global map[string]*float64
	c0, c1 bool
	trace  []string
	fn     []*zzSt
	steps  int
}

const (
	zzNormal = iota
	zzBreak
	zzReturn
)

func (r *zzRef) lookup(name string) *float64 {
	for i := len(r.scopes) - 1; i >= 0; i-- {
		if v, ok := r.scopes[i][name]; ok {
			return v
		}
	}
	return nil
}

func (r *zzRef) push()        { r.scopes = append(r.scopes, map[string]*float64{}) }
func (r *zzRef) pop()         { r.scopes = r.scopes[:len(r.scopes)-1] }
func (r *zzRef) out(s string) { r.trace = append(r.trace, "print:"+s+"\n") }

func (r *zzRef) cond(c string) bool {
	switch c {
	case "c0":
		return r.c0
	case "c1":
		return r.c1
	}
	return !r.c0
}

func (r *zzRef) block(sts []*zzSt) int {
	for _, st := range sts {
		if sig := r.stmt(st); sig != zzNormal {
			return sig
		}
	}
	return zzNormal
}

func (r *zzRef) declare(name string, v float64) {
	f := v
	r.scopes[len(r.scopes)-1][name] = &f
}

func (r *zzRef) stmt(st *zzSt) int {
	switch st.kind {
	case "print":
		r.out("p" + strconv.Itoa(st.k) + " " + zzN(*r.lookup("x")))
	case "assign":
		p := r.lookup("x")
		*p = *p + 1
	case "decl":
		r.out("b" + strconv.Itoa(st.k) + " " + zzN(*r.lookup("x")))
		r.declare("x", float64(st.k*10))
		r.out("d" + strconv.Itoa(st.k) + " " + zzN(*r.lookup("x")))
	case "call":
		// a procedure body sees its own locals and the globals only
		saved := r.scopes
		r.scopes = []map[string]*float64{r.global, {}}
		r.block(r.fn)
		r.scopes = saved
	case "break":
		return zzBreak
	case "return":
		return zzReturn
	case "if":
		body := st.els
		if r.cond(st.cond) {
			body = st.body
		} else if st.elif != nil && r.cond(st.cond2) {
			body = st.elif
		}
		if body == nil {
			return zzNormal
		}
		r.push()
		sig := r.block(body)
		r.pop()
		return sig
	case "while":
		// the counter lives in the enclosing block
		r.declare(st.lv, 0)
		for *r.lookup(st.lv) < 2 {
			r.push()
			p := r.lookup(st.lv)
			*p = *p + 1
			sig := r.block(st.body)
			r.pop()
			if sig == zzBreak {
				break
			}
			if sig == zzReturn {
				return sig
			}
		}
	case "fornum", "forarr", "forstr", "formap":
		var items []string
		switch st.kind {
		case "fornum":
			items = []string{"n 0", "n 1"}
		case "forarr":
			items = []string{"a 7", "a 8"}
		case "forstr":
			items = []string{"s y", "s ñ"}
		default:
			items = []string{"m q", "m p"}
		}
		for _, it := range items {
			r.push()
			r.out(it)
			sig := r.block(st.body)
			r.pop()
			if sig == zzBreak {
				break
			}
			if sig == zzReturn {
				return sig
			}
		}
	}
	return zzNormal
}

// zzRunRef runs the reference interpreter; returns the expected trace.
func zzRunRef(p *zzProg, x float64, c0, c1 bool) string {
	g := map[string]*float64{}
	xv := x
	g["x"] = &xv
	r := &zzRef{global: g, scopes: []map[string]*float64{g}, c0: c0, c1: c1, fn: p.fn}
	r.block(p.main)
	r.out("end " + zzN(xv) + " " + strconv.FormatBool(c0) + " " + strconv.FormatBool(c1))
	return strings.Join(r.trace, "|")
}
