//go:build verif

package evaluator

import (
	"strconv"
	"strings"

	"evylang.dev/evy/pkg/lexer"
	"evylang.dev/evy/pkg/parser"
)

// C06 — formatting changes nothing but whitespace.
// C07 — formatting is canonical and idempotent.

// The same harnesses serve C06 and C07; PROP selects whose assertions count.
func zzA6(c bool, msg string) {
	if zzParam("PROP", 0) != 7 {
		zzAssert(c, msg)
	}
}

func zzA7(c bool, msg string) {
	if zzParam("PROP", 0) != 6 {
		zzAssert(c, msg)
	}
}

type zzTok struct {
	t lexer.TokenType
	s string
}

// zzTokens: the non-whitespace token sequence of src. Number literals are
// compared by value and comments by their trimmed text (the formatter may
// normalise `1.50` to `1.5` and trims comments).
func zzTokens(src string) []zzTok {
	l := lexer.New(src)
	var out []zzTok
	for tok := l.Next(); tok.Type != lexer.EOF; tok = l.Next() {
		switch tok.Type {
		case lexer.WS, lexer.NL:
			continue
		case lexer.COMMENT:
			out = append(out, zzTok{tok.Type, strings.TrimSpace(tok.Literal)})
		case lexer.NUM_LIT:
			f, err := strconv.ParseFloat(tok.Literal, 64)
			if err != nil {
				out = append(out, zzTok{tok.Type, tok.Literal})
			} else {
				out = append(out, zzTok{tok.Type, strconv.FormatFloat(f, 'f', -1, 64)})
			}
		default:
			out = append(out, zzTok{tok.Type, tok.Literal})
		}
	}
	return out
}

func zzTokString(ts []zzTok) string {
	var sb strings.Builder
	for _, t := range ts {
		sb.WriteString(t.t.String())
		sb.WriteString("«")
		sb.WriteString(t.s)
		sb.WriteString("» ")
	}
	return sb.String()
}

// zzCheckFormat checks C06 and C07 for one accepted source text; returns the
// formatted text ("" if src is not accepted).
func zzCheckFormat(src, what string, run bool) string {
	ev := NewEvaluator(&zzPlat{})
	prog, err := zzParse(ev, src)
	if err != nil {
		return ""
	}
	out := prog.Format()
	again := prog.Format()
	if again != out {
		zzLog("formatting the same parsed program twice (" + what + ")\n--- first\n" + out + "\n--- second\n" + again)
	}
	zzAssert(again == out, "C07/C08: formatting the same parsed program again gives the same text (formatting does not change the program it formats)")
	// C06: only whitespace changes
	a, b := zzTokString(zzTokens(src)), zzTokString(zzTokens(out))
	if a != b {
		zzLog("C06 token mismatch (" + what + ")\n--- source\n" + src + "\n--- formatted\n" + out + "\n--- tokens\n" + a + "\n" + b)
	}
	zzA6(a == b, "C06: the sequence of non-whitespace tokens, including every comment, is unchanged by formatting")
	ev2 := NewEvaluator(&zzPlat{})
	prog2, err2 := zzParse(ev2, out)
	if err2 != nil {
		zzLog("C06 formatted text rejected (" + what + ")\n--- source\n" + src + "\n--- formatted\n" + out + "\n" + err2.Error())
	}
	zzA6(err2 == nil, "C06: the formatted text is accepted again")
	zzA7(err2 == nil, "C07: the formatter's own output can be formatted again (it is not accepted)")
	if err2 != nil {
		return out
	}
	t1, t2 := zzSqueeze(prog.String()), zzSqueeze(prog2.String())
	if t1 != t2 {
		zzLog("C06 tree mismatch (" + what + ")\n--- source\n" + src + "\n--- formatted\n" + out + "\n--- trees\n" + t1 + "\n---\n" + t2)
	}
	zzA6(t1 == t2, "C06: the formatted text has the same syntax tree (empty statements aside)")
	// C07: idempotent and canonical shape
	out2 := prog2.Format()
	if out2 != out {
		zzLog("C07 not idempotent (" + what + ")\n--- once\n" + out + "\n--- twice\n" + out2)
	}
	zzA7(out2 == out, "C07: formatting twice gives the same text as formatting once")
	oneNL := strings.HasSuffix(out, "\n") && !strings.HasSuffix(out, "\n\n")
	if zzEndsWithBlankLine(src) {
		zzA7(oneNL, "C07: formatted text ends with exactly one newline when the source ends with blank lines")
	} else {
		zzA7(oneNL, "C07: formatted text ends with exactly one newline")
	}
	lines := strings.Split(strings.TrimSuffix(out, "\n"), "\n")
	prevEmpty := false
	for _, line := range lines {
		zzA7(line == strings.TrimRight(line, " \t\r"), "C07: no trailing whitespace")
		zzA7(!(prevEmpty && line == ""), "C07: never more than one consecutive blank line")
		prevEmpty = line == ""
		ind := len(line) - len(strings.TrimLeft(line, " "))
		zzA7(!strings.HasPrefix(strings.TrimLeft(line, " "), "\t") && ind%4 == 0, "C07: indentation is a multiple of four spaces, no tabs")
	}
	want := zzExpectedIndents(out)
	for k, line := range lines {
		if line == "" || k >= len(want) {
			continue
		}
		ind := len(line) - len(strings.TrimLeft(line, " "))
		if ind != want[k] {
			zzLog("C07 indentation (" + what + ") line " + strconv.Itoa(k+1) + " has " + strconv.Itoa(ind) + " want " + strconv.Itoa(want[k]) + "\n" + out)
		}
		zzA7(ind == want[k], "C07: every line is indented four spaces per enclosing block and multi-line literal")
	}
	if run {
		p1, p2 := &zzPlat{}, &zzPlat{}
		e1, e2 := NewEvaluator(p1), NewEvaluator(p2)
		r1, r2 := e1.Run(src), e2.Run(out)
		zzA6((r1 == nil) == (r2 == nil) && p1.out() == p2.out(), "C06: source and formatted source behave identically when run")
	}
	return out
}

// zzExpectedIndents: the indentation every line of a formatted text should
// have: four spaces per enclosing block (if/else/while/for/func/on ... end)
// plus four per enclosing multi-line array or map literal; a line that starts
// with end/else or a closing bracket belongs to the level of its opener.
func zzExpectedIndents(text string) []int {
	var want []int
	depth, lit := 0, 0
	for _, line := range strings.Split(strings.TrimSuffix(text, "\n"), "\n") {
		l := lexer.New(line)
		first := true
		opens := false
		d := depth + lit
		for tok := l.Next(); tok.Type != lexer.EOF; tok = l.Next() {
			switch tok.Type {
			case lexer.WS, lexer.NL:
				continue
			case lexer.END:
				if first {
					depth--
					d = depth + lit
				}
			case lexer.ELSE:
				if first {
					d = depth - 1 + lit
				}
			case lexer.IF, lexer.WHILE, lexer.FOR, lexer.FUNC, lexer.ON:
				if first {
					opens = true
				}
			case lexer.LBRACKET, lexer.LCURLY:
				lit++
			case lexer.RBRACKET, lexer.RCURLY:
				lit--
				if first {
					d = depth + lit
				}
			}
			first = false
		}
		if opens {
			depth++
		}
		want = append(want, 4*d)
	}
	return want
}

// zzEndsWithBlankLine: src has a non-blank line followed by at least one
// blank line at its end.
func zzEndsWithBlankLine(src string) bool {
	lines := strings.Split(src, "\n")
	if len(lines) > 0 && strings.TrimSpace(lines[len(lines)-1]) == "" {
		lines = lines[:len(lines)-1] // text after the final newline
	}
	if len(lines) < 2 || strings.TrimSpace(lines[len(lines)-1]) != "" {
		return false
	}
	for _, l := range lines {
		if strings.TrimSpace(l) != "" {
			return true
		}
	}
	return false
}

// zzSqueeze removes the empty lines that empty statements leave in Program.String().
func zzSqueeze(s string) string {
	var out []string
	for _, l := range strings.Split(s, "\n") {
		if strings.TrimSpace(l) != "" {
			out = append(out, l)
		}
	}
	return strings.Join(out, "\n")
}


// ZZC06Corpus: a corpus of layouts of every syntax form.
func ZZC06Corpus() {
	k := zzChoice("text", len(zzFmtCorpus))
	out := zzCheckFormat(zzFmtCorpus[k], "corpus "+strconv.Itoa(k), true)
	zzAssert(out != "" || zzFmtCorpus[k] == "", "corpus: every corpus text is accepted")
	zzReach("corpus-ok")
	zzWitness("end")
}

// ZZC06Gen: generated programs in two whitespace layouts: both format to the
// same text (canonical form), and each satisfies C06/C07.
func ZZC06Gen() {
	D := zzParam("FD", 2)
	zzFmtGen(&zzGenCfg{maxDepth: D, lens: []int{zzParam("FL0", 2), zzParam("FL1", 1), 1, 1}})
}

// ZZC06GenFlat: sequences of simple statements and calls (blank-line runs
// between statements, spacing around the procedure definition).
func ZZC06GenFlat() {
	zzFmtGen(&zzGenCfg{maxDepth: 0, lens: []int{zzParam("FLAT", 3), 1, 1, 1}})
}

func zzFmtGen(cfg *zzGenCfg) {
	gp := zzGenProg(cfg)
	lay := zzChoice("layout", 3)
	comments := lay == 1
	b1 := 1 + lay
	plain := gp.render(zzLayout{blank: 1, comments: comments})
	messy := gp.render(zzLayout{extraSpace: true, blank: b1, tab: true, comments: comments, trail: true, crlf: lay == 2})
	f1 := zzCheckFormat(plain, "generated plain", false)
	f2 := zzCheckFormat(messy, "generated messy", true)
	zzA6(f1 != "" && f2 != "", "C06 gen: generated programs are accepted")
	if f1 != f2 {
		zzLog("C07 not canonical\n--- plain\n" + plain + "\n--- messy\n" + messy + "\n--- fmt(plain)\n" + f1 + "\n--- fmt(messy)\n" + f2)
	}
	zzA7(f1 == f2, "C07: programs differing only in horizontal whitespace and blank-line runs format to the same text")
	zzReach("gen-ok")
	zzWitness("end")
}

// ZZC06Programs: every program text used by the other evaluator harnesses
// (type-soundness programs, alias scenarios, inference literals, determinism
// programs, the rule skeleton) is also a formatting input.
func ZZC06Programs() {
	var texts []string
	for _, c := range zzAliases {
		texts = append(texts, "a := 1\nb := 2\n"+zzC09Funcs+c.src+"print a b\n")
	}
	for _, src := range zzC08Progs {
		texts = append(texts, src)
	}
	texts = append(texts, zzC05Program(nil, ""))
	for _, c := range zzC02ProgramTexts() {
		texts = append(texts, c)
	}
	for _, l := range zzC04InferLiterals() {
		texts = append(texts, "x := [1]\ny := [\"s\"]\nv := "+l+"\nprint (typeof v)\nprint x y\n")
	}
	// literals converted to another type by their context (any-typed targets)
	texts = append(texts,
		"x:[]any\nx = [1 2 3] // conv\nprint x\n",
		"m:{}any\nm = {a:1 b:[2]}\nprint m\n",
		"x:[][]any\nx = [\n  [1] // one\n  [2 3]\n]\nprint x\n",
		"func f a:[]any m:{}any\n  print a m\nend\nf [1 2] {k:1}\n",
		"func g:[]any\n  return [1 \"s\" [2]]\nend\nprint (g)\n",
		"v:any\nv = [1 2]\nv = {a:[1]}\nprint v\n",
		"func h a:any...\n  print a\nend\nh [1] {b:2} 3\n",
		"func f:num\n  if true\n    return 1\n    // after return\n  end\n  return 2\n  // trailing\nend\nprint (f)\n",
		"while true\n  break\n  // after break\n\n  // more\nend\n",
	)
	k := zzChoice("text", len(texts))
	out := zzCheckFormat(texts[k], "programs "+strconv.Itoa(k), false)
	if out == "" {
		zzReach("not-accepted") // e.g. the determinism programs that are deliberately invalid
	} else {
		zzReach("programs-ok")
	}
	zzWitness("end")
}

// ZZC06Docs: every documented example is a formatting input.
func ZZC06Docs() {
	k := zzChoice("example", len(zzDocExamples))
	out := zzCheckFormat(zzDocExamples[k].src, "doc example "+strconv.Itoa(k), false)
	zzA6(out != "", "C06 docs: documented examples are accepted")
	zzReach("docs-ok")
	zzWitness("end")
}

var _ = parser.Parse

// ZZC07Seq: every sequence of up to SEQ top-level items (statement, own-line
// comment, blank line, procedure definition, handler definition, block with a
// comment and a statement inside), and the same items as the body of a block:
// the blank-line policy around definitions and comments is idempotent and
// independent of the length of blank-line runs.
func ZZC07Seq() {
	n := 1 + zzChoice("items", zzParam("SEQ", 4))
	inBlock := zzChoice("inblock", 2) == 1
	pad := ""
	if inBlock {
		pad = "    "
	}
	var one, two strings.Builder
	nf := 0
	write := func(s string) { one.WriteString(s); two.WriteString(s) }
	if inBlock {
		write("if true\n")
	}
	for k := 0; k < n; k++ {
		kinds := 6
		if inBlock {
			kinds = 4
		}
		switch zzChoice("item", kinds) {
		case 0:
			write(pad + "print " + strconv.Itoa(k) + "\n")
		case 1:
			write(pad + "// c" + strconv.Itoa(k) + "\n")
		case 2:
			one.WriteString("\n")
			two.WriteString("\n\n\n")
		case 3:
			write(pad + "while false // w\n" + pad + "    // inner\n" + pad + "    print " + strconv.Itoa(k) + "\n" + pad + "end\n")
		case 4:
			nf++
			write("func f" + strconv.Itoa(nf) + "\n    print " + strconv.Itoa(k) + "\nend\n")
		case 5:
			if nf >= 100 {
				zzAssume(false)
			}
			nf += 100
			write("on key k:string\n    print k\nend\n")
		}
	}
	if inBlock {
		write("end\n")
	}
	f1 := zzCheckFormat(one.String(), "item sequence", false)
	f2 := zzCheckFormat(two.String(), "item sequence, long blank runs", false)
	if f1 != f2 {
		zzLog("C07 not canonical\n--- short blank runs\n" + one.String() + "\n--- long blank runs\n" + two.String() + "\n--- formatted\n" + f1 + "\n---\n" + f2)
	}
	zzA7(f1 == f2, "C07: programs differing only in the length of blank-line runs format to the same text")
	zzReach("seq-ok")
	zzWitness("end")
}

// ZZC07Num: number literals over 37 orders of magnitude are printed back in
// plain decimal notation that the lexer accepts again, with the same value.
func ZZC07Num() {
	mant := []string{"1", "15", "123456789", "9007199254740993"}[zzChoice("mantissa", 4)]
	e := zzChoice("exp", 37) - 12 // 10^-12 .. 10^24
	lit := mant
	if e >= 0 {
		lit += strings.Repeat("0", e)
	} else {
		lit = "0." + strings.Repeat("0", -e-1) + mant
	}
	src := "n := " + lit + "\nprint n " + lit + " [" + lit + " -" + lit + "]\n"
	out := zzCheckFormat(src, "number literal "+lit, false)
	zzAssert(out != "", "number literal is accepted")
	zzReach("num-ok")
	zzWitness("end")
}

// zzStrPieces: source-level pieces of a string literal — plain characters,
// every escape sequence the lexer accepts, and characters that look like
// format verbs or markup.
var zzStrPieces = []string{"a", "\\\\", "\\\"", "\\n", "\\t", "é", " ", "%", "'", "//", "{", "\\\\n", "世"}

// ZZC07Str: string literals built from every sequence of up to S pieces, in
// every position a string can take (declaration, argument, array element, map
// value, comparison): formatting keeps the literal's token, the formatted
// program is accepted and prints the same text.
func ZZC07Str() {
	S := zzParam("S", 3)
	n := 1 + zzChoice("n", S)
	content := ""
	for k := 0; k < n; k++ {
		content += zzStrPieces[zzChoice("piece", len(zzStrPieces))]
	}
	lit := "\"" + content + "\""
	var src string
	switch zzChoice("pos", 4) {
	case 0:
		src = "s := " + lit + "\nprint s (len s)\n"
	case 1:
		src = "print " + lit + "  " + lit + "+" + lit + "\n"
	case 2:
		src = "a := [" + lit + "   \"x\"]\nm := {k:" + lit + "}\nprint a m\n"
	case 3:
		src = "if " + lit + "==\"a\"\n    print 1\nelse\n    print " + lit + "\nend\n"
	}
	out := zzCheckFormat(src, "string literal "+lit, true)
	zzAssert(out != "", "C06/C07 str: a string literal made of valid pieces is accepted")
	zzReach("str-ok")
	zzWitness("end")
}

// ZZC06Multi: multi-line array and map literals whose lines are every
// sequence of up to ML items (element, element with trailing comment,
// own-line comment, blank line) — including literals that hold only comments —
// in every position a literal can take: inferred declaration, assignment to a
// typed variable, argument of a typed and of an any parameter, element of an
// outer literal, and all of these inside a block.
func ZZC06Multi() {
	ML := zzParam("ML", 3)
	n := zzChoice("items", ML+1)
	isMap := zzChoice("map", 2) == 1
	var lines []string
	ne := 0
	for k := 0; k < n; k++ {
		switch zzChoice("item", 4) {
		case 0, 1:
			ne++
			el := strconv.Itoa(ne)
			if isMap {
				el = "k" + strconv.Itoa(ne) + ": " + strconv.Itoa(ne)
			}
			if k%2 == 1 {
				el += " // e" + strconv.Itoa(ne)
			}
			lines = append(lines, el)
		case 2:
			lines = append(lines, "// c"+strconv.Itoa(k))
		case 3:
			lines = append(lines, "")
		}
	}
	open, close, typ := "[", "]", "[]num"
	if isMap {
		open, close, typ = "{", "}", "{}num"
	}
	inBlock := zzChoice("inblock", 2) == 1
	pad := ""
	if inBlock {
		pad = "    "
	}
	lit := open + "\n"
	for _, l := range lines {
		if l == "" {
			lit += "\n"
		} else {
			lit += pad + "  " + l + "\n"
		}
	}
	lit += pad + close
	var body string
	switch zzChoice("pos", 6) {
	case 0:
		body = pad + "x := " + lit + "\n" + pad + "print x\n"
	case 1:
		body = pad + "y:" + typ + "\n" + pad + "y = " + lit + "\n" + pad + "print y\n"
	case 2:
		body = pad + "takes " + lit + "\n"
	case 3:
		body = pad + "print " + lit + " 1\n"
	case 4:
		body = pad + "z := [" + lit + " " + open + close + "]\n" + pad + "print z\n"
	case 5:
		body = pad + "w:[]" + typ + "\n" + pad + "w = [\n" + pad + "    " + lit + " // after\n" + pad + "]\n" + pad + "print w\n"
	}
	src := "func takes p:" + typ + "\n    print p\nend\n"
	if inBlock {
		src += "if true\n" + body + "end\n"
	} else {
		src += body
	}
	out := zzCheckFormat(src, "multi-line literal", true)
	if out == "" {
		zzLog("C06 multi: not accepted:\n" + src)
	}
	zzAssert(out != "", "C06 multi: a multi-line literal of elements, comments and blank lines is accepted in every position")
	zzReach("multi-ok")
	zzWitness("end")
}

// ZZC06Groups: parenthesised sub-expressions whose operands are literals the
// type checker rewrites (untyped empty arrays, literals converted to an
// any-based type) in every typed position: the formatter keeps every
// parenthesis, so nothing re-associates.
func ZZC06Groups() {
	ops := []string{"[]", "[[]]", "[[1]]", "[[1] []]", "x"}
	a, b := ops[zzChoice("a", len(ops))], ops[zzChoice("b", len(ops))]
	shape := zzChoice("shape", 6)
	var expr string
	switch shape {
	case 0:
		expr = "(" + a + " + " + b + ") * 2"
	case 1:
		expr = a + " + (" + b + " * 2)"
	case 2:
		expr = "(" + a + ") + (" + b + ")"
	case 3:
		expr = "((" + a + " + " + b + "))"
	case 4:
		expr = "(" + a + " + " + b + ")[:1] + (" + b + ")"
	case 5:
		expr = "(" + a + " * 2) + " + b
	}
	var src string
	switch zzChoice("pos", 4) {
	case 0:
		src = "x:[][]num\nx = " + expr + "\nprint x\n"
	case 1:
		src = "x:[][]num\nw:[][]any\nw = " + strings.ReplaceAll(expr, "x", "[[2]]") + "\nprint w x\n"
	case 2:
		src = "x:[][]num\nfunc f p:[][]num\n    print p\nend\nf " + expr + "\n"
	case 3:
		src = "x:[][]num\nv:any\nv = " + expr + "\nprint v x (1 + 2) * 3 -(4 - 5)\n"
	}
	ev := NewEvaluator(&zzPlat{})
	if _, err := zzParse(ev, src); err != nil {
		zzAssume(false) // ill-typed combination: not a formatting input
	}
	out := zzCheckFormat(src, "grouped expression", true)
	zzAssert(out != "", "C06 groups: accepted")
	zzReach("groups-ok")
	zzWitness("end")
}

// ZZC06Invalid: texts the language rejects (every rule-breaking edit of the
// C05 skeleton, range clauses with surplus operands, stray text after
// statements). Should a tree accept one of them, nothing of the accepted text
// may be dropped by the formatter either: the token sequence is compared like
// for every other accepted text. (On a tree that rejects them all the harness
// only records that.)
func ZZC06Invalid() {
	var texts []string
	for bi := range zzBreakages {
		b := &zzBreakages[bi]
		for _, slot := range strings.Fields(b.slots) {
			texts = append(texts, zzC05Program(b, slot))
		}
	}
	texts = append(texts,
		"arr := [1 2]\nfor x := range arr 2\n    print x\nend\n",
		"arr := [1 2]\nfor x := range arr 1 \"zz\"\n    print x\nend\n",
		"for x := range \"ab\" 2\n    print x\nend\n",
		"print 1 ) 2\n", "print [1] ] 3\n", "x := 1 2\nprint x\n", "if true 1\n    print 1\nend\n", "while true\n    break 1\nend\n",
		"func f\n    print 1\nend extra\nf\n", "x := [1 2] 3\nprint x\n", "x := {a:1} b\nprint x\n", "print (len [1]) )\n")
	k := zzChoice("text", len(texts))
	out := zzCheckFormat(texts[k], "invalid text "+strconv.Itoa(k), false)
	if out == "" {
		zzReach("invalid-rejected")
	} else {
		zzReach("invalid-accepted")
	}
	zzWitness("end")
}
