//go:build verif

package main

import (
	"fmt"
	"os"
	"os/exec"
	"strconv"
	"strings"
)

// Native confirmation of fault / kill counterexamples of C18: the real evy
// binary (VERIF_EVY_BIN, built by vcheck from /repo's working tree) runs
// `fmt -w` on a real file under strace, with the injection applied to the
// N-th file or descriptor system call for every N until the process runs to
// completion untouched. The invariant of the property is checked after every
// run. (Go runtime start-up calls are part of the numbering, so all of them
// are enumerated too; an injected failure there is harmless.)
func zzNativeInject(path, real, orig, want string, parsable bool, mode int, kill bool, errno string) {
	bin := os.Getenv("VERIF_EVY_BIN")
	if bin == "" {
		fmt.Println("ZZNATIVE-UNSUPPORTED: VERIF_EVY_BIN not set")
		return
	}
	inj := "signal=KILL"
	if !kill {
		inj = "error=" + errno
	}
	log := path + ".strace"
	syscalls := []string{"openat", "write", "pwrite64", "close", "renameat", "renameat2", "rename", "fchmod", "fchmodat", "chmod",
		"newfstatat", "fstat", "unlinkat", "unlink", "fsync", "ftruncate", "read", "fcntl"}
	runs := 0
	for _, sc := range syscalls {
		// strace counts invocations per system call: inject at the n-th call of sc
		for n := 1; n <= 60; n++ {
			if path != real { // restore the symbolic link if the previous run replaced it
				os.Remove(path)
				os.Symlink(real, path)
			}
			os.Chmod(real, 0o600)
			os.WriteFile(real, []byte(orig), 0o600)
			os.Chmod(real, os.FileMode(mode))
			cmd := exec.Command("strace", "-f", "-o", log, "-e", "trace="+sc,
				"-e", "inject="+sc+":"+inj+":when="+strconv.Itoa(n), bin, "fmt", "-w", path)
			out, err := cmd.CombinedOutput()
			runs++
			exit := 0
			if err != nil {
				exit = 1
			}
			tr, _ := os.ReadFile(log)
			injected := strings.Contains(string(tr), "(INJECTED)") || strings.Contains(string(tr), "killed by SIGKILL")
			if path != real {
				rdata, rm, rok := zzFSGet(real)
				zzAssert(rok && (rdata == orig || (parsable && rdata == want)), "C18 -w: the file behind a symbolic link holds either its complete original text or the complete formatted text (native: "+inj+" at "+sc+" call "+strconv.Itoa(n)+")")
				zzAssert(rm == mode, "C18 -w: permission bits of the file behind a symbolic link are unchanged (native)")
			}
			data, m, ok := zzFSGet(path)
			where := " (native: " + inj + " at " + sc + " call " + strconv.Itoa(n) + ")"
			zzAssert(ok, "C18 -w: the source file still exists"+where)
			zzAssert(data == orig || (parsable && data == want), "C18 -w: the file holds either its complete original text or the complete formatted text"+where)
			zzAssert(m == mode, "C18 -w: permission bits are unchanged"+where)
			if exit == 0 && parsable && !kill {
				zzAssert(data == want, "C18 -w: success is only reported when the formatted text is in place"+where)
			}
			if len(zzViolations) > 0 {
				fmt.Printf("native injection run: exit=%d output=%q\n", exit, string(out))
				return
			}
			if !injected {
				break // fewer than n calls of sc: next system call
			}
		}
	}
	os.Remove(log)
	fmt.Printf("native injection: %d runs, invariant held\n", runs)
}
