//go:build verif

package main

import (
	"bytes"
	"fmt"
	"os"
	"os/exec"
	"strings"
)

// C05 (CLI) — `evy run` on an invalid program reports on stderr with a
// non-zero status and performs none of the program's effects.

const zzC05Valid = "print \"start\"\nmove 1 1\nx := 2\nsleep 0.1\nprint \"end\" x\n"

var zzC05Broken = []string{
	"print \"start\"\nprint nosuchvar\n",
	"print \"start\"\nunused := 1\n",
	"print \"start\"\nsleep 1\nbreak\n",
	"print \"start\"\nmove 1 1\nfunc g:num\n    print 1\nend\n",
	"print \"start\"\ncls )\n",
	"print \"start\"\nif true\n    cls\nend garbage\n",
	"print \"start\"\nx := 1\nx = \"s\"\nprint x\n",
	"print \"abc\n",
}

// zzExitCode runs f and returns the status passed to os.Exit (-1: returned normally).
func zzRunCLI(f func()) (code int) {
	code = -1
	zzCatchExit(true)
	defer func() {
		zzCatchExit(false)
		if r := recover(); r != nil {
			if c, ok := zzExited(r); ok {
				code = c
				return
			}
			panic(r)
		}
	}()
	f()
	return code
}

// zzNativeCLI (native replay only): the real evy binary built from /repo's
// working tree runs with the given arguments; os.Exit cannot be intercepted in
// a native test, a separate process can simply be waited for.
func zzNativeCLI(args ...string) (stdout, stderr string, code int, ok bool) {
	bin := os.Getenv("VERIF_EVY_BIN")
	if bin == "" {
		fmt.Println("ZZNATIVE-UNSUPPORTED: VERIF_EVY_BIN not set")
		return "", "", 0, false
	}
	cmd := exec.Command(bin, args...)
	var o, e bytes.Buffer
	cmd.Stdout, cmd.Stderr = &o, &e
	cmd.Stdin = strings.NewReader("")
	err := cmd.Run()
	code = -1
	if err != nil {
		code = 1
		if ee, isExit := err.(*exec.ExitError); isExit {
			code = ee.ExitCode()
		}
	}
	return o.String(), e.String(), code, true
}

func ZZC05CLI() {
	k := zzChoice("prog", len(zzC05Broken)+1)
	svg := zzChoice("svg", 2) == 1
	src := zzC05Valid
	if k < len(zzC05Broken) {
		src = zzC05Broken[k]
	}
	path := zzFSPath("p.evy")
	svgPath := zzFSPath("out.svg")
	zzFSPut(path, src, 0o644)
	c := &runCmd{Source: path}
	if svg {
		c.SVGOut = svgPath
	}
	var err error
	var code int
	var out, errOut string
	if zzSymbolic() {
		code = zzRunCLI(func() { err = c.Run() })
		out, errOut = zzStdout(), zzStderr()
	} else {
		args := []string{"run"}
		if svg {
			args = append(args, "--svg-out", svgPath)
		}
		var ok bool
		out, errOut, code, ok = zzNativeCLI(append(args, path)...)
		if !ok {
			return
		}
		if code == -1 && errOut != "" {
			err = fmt.Errorf("%s", errOut)
		}
	}
	_, _, svgExists := zzFSGet(svgPath)
	if k == len(zzC05Broken) {
		zzAssert(err == nil && code == -1, "C05 cli: a valid program runs and exits normally")
		zzAssert(out == "start\nend 2\n", "C05 cli: a valid program prints its output")
		zzAssert(svgExists == svg, "C05 cli: the SVG file is written exactly when asked for")
		zzReach("cli-valid")
		zzWitness("end-valid")
		return
	}
	zzAssert(code > 0, "C05 cli: an invalid program gives a non-zero exit status")
	zzAssert(strings.Contains(errOut, "line "), "C05 cli: the located errors are reported on stderr")
	zzAssert(out == "", "C05 cli: an invalid program produces no output")
	zzAssert(len(zzEffects()) == 0, "C05 cli: an invalid program neither sleeps nor clears the screen nor reads input")
	zzAssert(!svgExists, "C05 cli: an invalid program writes no SVG file")
	zzReach("cli-rejected")
	zzWitness("end")
}

// ZZC08CLISeed: `evy run --rand-seed s` twice in one process with the same
// non-zero symbolic seed prints the same text (the command installs the seeded
// source for every non-zero seed; zero means "pick a seed").
func ZZC08CLISeed() {
	seed := int64(zzInt("seed", -1<<40, 1<<40))
	zzAssume(seed != 0)
	path := zzFSPath("r.evy")
	zzFSPut(path, "print (rand 1000) (rand 6) (rand1)\nfor range 2\n    print (rand 10)\nend\n", 0o644)
	if !zzSymbolic() {
		// native confirmation: the real binary, two processes with the same seed
		o1, _, c1, ok := zzNativeCLI("run", "--rand-seed", fmt.Sprint(seed), path)
		o2, _, c2, _ := zzNativeCLI("run", "--rand-seed", fmt.Sprint(seed), path)
		if ok {
			zzAssert(c1 == -1 && c2 == -1, "C08 cli seed: the program runs")
			zzAssert(o1 == o2, "C08 cli seed: two runs with the same --rand-seed print the same random numbers")
		}
		return
	}
	run := func() string {
		c := &runCmd{Source: path, RandSeed: seed}
		err := c.Run()
		zzAssert(err == nil, "C08 cli seed: the program runs")
		return zzStdout()
	}
	o1 := run()
	o12 := run() // stdout accumulates: the second run's text is what follows the first's
	zzAssert(o12 == o1+o1, "C08 cli seed: two runs with the same --rand-seed print the same random numbers")
	zzReach("cliseed-ok")
	zzWitness("end")
}
