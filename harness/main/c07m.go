//go:build verif

package main

import "errors"

// C07 (CLI) — `evy fmt --check` accepts exactly the formatter's own output.
var zzC07Texts = []string{
	"x:=1\nprint   x\n",
	"x := 1\nprint x\n",
	"a := [\n    1 // one\n\n\n    2\n]\nprint a\n",
	"func f\n  print 1\nend\nf\n",
	"print 1",
	"\n\nprint 1\n\n\n",
	"if true\n\tprint 1\nend\n",
	"// only a comment\n",
	"",
}

func ZZC07Check() {
	src := zzC07Texts[zzChoice("text", len(zzC07Texts))]
	out, err := format([]byte(src), false)
	zzAssert(err == nil, "C07 check: corpus text formats")
	if err != nil {
		return
	}
	_, err = format([]byte(out), true)
	zzAssert(err == nil, "C07 check: --check accepts the formatter's own output")
	_, err = format([]byte(src), true)
	zzAssert((err == nil) == (src == out), "C07 check: --check exits zero exactly for input that is already in formatted form")
	if err != nil {
		zzAssert(errors.Is(err, errNotFormatted), "C07 check: unformatted input is reported as not formatted")
	}
	// through the command: file untouched, same verdict
	path := zzFSPath("a.evy")
	zzFSPut(path, src, 0o644)
	cerr := (&fmtCmd{Check: true, Files: []string{path}}).Run()
	data, _, _ := zzFSGet(path)
	zzAssert((cerr == nil) == (src == out) && data == src, "C07 check: evy fmt -c gives the same verdict and leaves the file untouched")
	zzReach("check-ok")
	zzWitness("end")
}
