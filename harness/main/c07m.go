//go:build verif

package main

import "errors"

// C07 (CLI) — `evy fmt --check` accepts exactly the formatter's own output.
var zzC07Texts = []string{
	"x:=1\nprint   x\n",
	"x := 1\nprint x\n",
	"a := [\n    1 // one\n\n\n    2\n]\nprint a\n",
	"func f\n  print 1\nend\nf\n",
	"print 1",
	"\n\nprint 1\n\n\n",
	"if true\n\tprint 1\nend\n",
	"// only a comment\n",
	"",
	// texts that agree with the formatter's output line for line up to some point and then go on or stop
	"print 1\n\n\n",
	"print 1\n\n",
	"print 1\nprint 2\n",
	"print 1\n\n\n\nprint 2\n",
	"if true\n    print 1\nend\n\n\n\n",
	"x := 1\nprint x\n// tail\n\n\n",
}

func ZZC07Check() {
	src := zzC07Texts[zzChoice("text", len(zzC07Texts))]
	out, err := format([]byte(src), false)
	zzAssert(err == nil, "C07 check: corpus text formats")
	if err != nil {
		return
	}
	_, err = format([]byte(out), true)
	zzAssert(err == nil, "C07 check: --check accepts the formatter's own output")
	_, err = format([]byte(src), true)
	zzAssert((err == nil) == (src == out), "C07 check: --check exits zero exactly for input that is already in formatted form")
	if err != nil {
		zzAssert(errors.Is(err, errNotFormatted), "C07 check: unformatted input is reported as not formatted")
	}
	// through the command: file untouched, same verdict
	path := zzFSPath("a.evy")
	zzFSPut(path, src, 0o644)
	cerr := (&fmtCmd{Check: true, Files: []string{path}}).Run()
	data, _, _ := zzFSGet(path)
	zzAssert((cerr == nil) == (src == out) && data == src, "C07 check: evy fmt -c gives the same verdict and leaves the file untouched")
	zzReach("check-ok")
	zzWitness("end")
}

// ZZC07CheckFiles: `evy fmt --check` over several files (plain and txtar, any
// order): status zero exactly when every file is already formatted; no file
// is touched.
func ZZC07CheckFiles() {
	texts := []string{"x := 1\nprint x\n", "x:=1\nprint   x\n", "func f\n    print 1\nend\n\nf\n", "if true\n\tprint 1\nend\n"}
	formatted := []bool{true, false, true, false}
	n := 1 + zzChoice("files", zzParam("FILES", 3))
	var paths []string
	var srcs []string
	all := true
	for k := 0; k < n; k++ {
		t := zzChoice("text", len(texts))
		name := "f" + string(rune('a'+k))
		src := texts[t]
		if zzChoice("txtar", 2) == 1 {
			name += ".txtar"
			src = "comment\n-- a.evy --\n" + texts[0] + "-- b.evy --\n" + texts[t] + "-- c.txt --\nx:=1\n"
		} else {
			name += ".evy"
		}
		path := zzFSPath(name)
		zzFSPut(path, src, 0o644)
		paths = append(paths, path)
		srcs = append(srcs, src)
		all = all && formatted[t]
	}
	err := (&fmtCmd{Check: true, Files: paths}).Run()
	zzAssert((err == nil) == all, "C07 check: evy fmt -c over several files exits zero exactly when every file is already formatted")
	if err != nil {
		zzAssert(errors.Is(err, errNotFormatted), "C07 check: an unformatted file is reported as not formatted")
		zzReach("files-unformatted")
	} else {
		zzReach("files-ok")
	}
	for k, path := range paths {
		data, _, _ := zzFSGet(path)
		zzAssert(data == srcs[k], "C07 check: --check leaves every file untouched")
	}
	zzWitness("end")
}

// ZZC07Stdin: `evy fmt` without files reads standard input: it writes the
// formatted text to standard output; with -c it writes nothing and exits
// zero exactly for input already in formatted form; a text that does not
// parse gives an error and no output; -w without files is refused.
func ZZC07Stdin() {
	texts := append([]string{"print (\n", "x := \n"}, zzC07Texts...)
	src := texts[zzChoice("text", len(texts))]
	mode := zzChoice("mode", 3) // 0 format, 1 check, 2 write (refused)
	want, ferr := format([]byte(src), false)
	zzStdin(src)
	c := &fmtCmd{Check: mode == 1, Write: mode == 2}
	err := c.Run()
	out := zzStdout()
	switch {
	case mode == 2:
		zzAssert(err != nil && out == "", "C07 stdin: -w without a file is refused")
	case ferr != nil:
		zzAssert(err != nil && out == "", "C07 stdin: input that does not parse gives an error and no output")
		zzReach("stdin-unparsable")
	case mode == 0:
		zzAssert(err == nil && out == want, "C07 stdin: the formatted text is written to standard output")
		zzReach("stdin-formatted")
	case mode == 1:
		zzAssert((err == nil) == (src == want), "C07 stdin: -c exits zero exactly for input that is already in formatted form")
		zzAssert(out == "", "C07 stdin: -c writes nothing")
		zzReach("stdin-checked")
	}
	zzWitness("end")
}
