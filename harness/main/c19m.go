//go:build verif

package main

import "strings"

// C19 (CLI) — `evy run --svg-out f` leaves exactly the drawing of this run in
// f, whatever f held before (absent, shorter, longer, a previous drawing).
func ZZC19CLI() {
	progs := []string{
		"move 10 10\nline 50 50\n",
		"color \"red\"\ncircle 10\nrect 5 5\ntext \"hi\"\nwidth 2\nline 1 1\n",
		"print \"no drawing\"\n",
	}
	src := progs[zzChoice("prog", len(progs))]
	path := zzFSPath("p.evy")
	zzFSPut(path, src, 0o644)
	fresh, reused := zzFSPath("fresh.svg"), zzFSPath("reused.svg")
	switch zzChoice("before", 4) {
	case 0: // absent
	case 1:
		zzFSPut(reused, "", 0o644)
	case 2:
		zzFSPut(reused, "<", 0o644)
	case 3:
		zzFSPut(reused, "<svg>"+strings.Repeat("<circle cx=\"1\" cy=\"2\" r=\"3\"></circle>\n", 200)+"</svg>\n", 0o644)
	}
	var err1, err2 error
	code1 := zzRunCLI(func() { err1 = (&runCmd{Source: path, SVGOut: fresh}).Run() })
	code2 := zzRunCLI(func() { err2 = (&runCmd{Source: path, SVGOut: reused}).Run() })
	zzAssert(err1 == nil && err2 == nil && code1 == -1 && code2 == -1, "C19 cli: the program runs")
	a, _, ok1 := zzFSGet(fresh)
	b, _, ok2 := zzFSGet(reused)
	zzAssert(ok1 && ok2, "C19 cli: the SVG file is written")
	zzAssert(a == b, "C19 cli: the SVG file holds exactly the drawing of this run, nothing of its previous content")
	zzAssert(strings.HasPrefix(strings.TrimSpace(a), "<svg") || a == "", "C19 cli: the file starts with the svg element")
	zzReach("cli-svg")
	zzWitness("end")
}
