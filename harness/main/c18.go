//go:build verif

package main

import "errors"

// C18 — `evy fmt -w` never damages a source file; `--check` tells the truth.
//
// Symbolic: the file's permission bits (9 bits), the injected failure (which
// file-system call fails, with which errno) or the kill point (after which
// file-system call the process dies); content class; .evy vs .txtar.

var zzC18Sources = []string{
	"x := 1\nprint x\n",                    // already formatted
	"x:=1\nprint   x\n\n\n\n",              // parsable, not formatted
	"func f\nprint 1\n",                    // does not parse
	"",                                     // empty
	"// c\nif true\n  print 1 // d\nend\n", // comments, indentation
}

func zzRecoverCrash(crashed *bool) {
	if r := recover(); r != nil {
		if zzFSCrashed(r) {
			*crashed = true
			return
		}
		panic(r)
	}
}

func ZZC18Write() {
	K := zzParam("K", 8)
	ci := zzChoice("content", len(zzC18Sources))
	txtar := zzChoice("txtar", 2) == 1
	src := zzC18Sources[ci]
	formatted, ferr := format([]byte(src), false)
	parsable := ferr == nil
	name, orig, want := "a.evy", src, formatted
	if txtar {
		name = "a.txtar"
		orig = "comment\n-- a.evy --\n" + src + "-- b.txt --\nkeep   me\n"
		want = "comment\n-- a.evy --\n" + formatted + "-- b.txt --\nkeep   me\n"
	}
	path := zzFSPath(name)
	mode := zzInt("mode", 0, 0o777)
	zzAssume(mode&0o400 != 0) // the user can read the file (otherwise fmt cannot even start)
	zzFSPut(path, orig, mode)
	// the process umask is arbitrary; the file may be given through a symbolic link
	zzFSUmask(zzInt("umask", 0, 0o777))
	viaLink := zzChoice("vialink", 2) == 1
	real := path
	if viaLink {
		path = zzFSPath("link-" + name)
		zzFSSymlink(path, real)
	}

	inject := zzChoice("inject", 3) // 0 none, 1 one failing call, 2 kill
	k := 0
	if inject != 0 {
		k = 1 + zzChoice("k", K)
	}
	errno := 0
	if inject == 1 {
		errno = zzChoice("errno", 3)
	}
	if !zzSymbolic() && inject != 0 {
		// native confirmation: real binary, real file, injection by strace at every system call
		zzNativeInject(path, real, orig, want, parsable, mode, inject == 2, []string{"ENOSPC", "EIO", "EACCES"}[errno])
		return
	}
	switch inject {
	case 1:
		zzFSFaultAt(k, errno)
	case 2:
		zzFSCrashAt(k)
	}
	cmd := &fmtCmd{Write: true, Files: []string{path}}
	var err error
	crashed := false
	func() {
		defer zzRecoverCrash(&crashed)
		err = cmd.Run()
	}()
	ncalls := zzFSCalls()
	data, m, ok := zzFSGet(path)
	zzAssert(ok, "C18 -w: the source file still exists")
	if !ok {
		return
	}
	if viaLink {
		// the file the link points to is a source file too: it must never be damaged
		rdata, rm, rok := zzFSGet(real)
		zzAssert(rok && (rdata == orig || (parsable && rdata == want)), "C18 -w: the file behind a symbolic link holds either its complete original text or the complete formatted text")
		zzAssert(rm == mode, "C18 -w: permission bits of the file behind a symbolic link are unchanged")
	}
	zzAssert(data == orig || (parsable && data == want), "C18 -w: the file holds either its complete original text or the complete formatted text")
	zzAssert(m == mode, "C18 -w: permission bits are unchanged")
	if !parsable {
		zzReach("unparsable")
		zzAssert(data == orig, "C18 -w: a file that does not parse is left untouched")
		zzAssert(crashed || err != nil, "C18 -w: a file that does not parse gives an error (non-zero exit)")
	}
	if inject == 0 || k > ncalls {
		if parsable {
			zzReach("clean-run")
			zzAssert(err == nil, "C18 -w: formatting a parsable file succeeds")
			zzAssert(data == want, "C18 -w: after a clean run the file holds the formatted text")
		}
	} else if inject == 1 {
		zzReach("fault")
		if err == nil {
			zzAssert(!parsable || data == want, "C18 -w: success is only reported when the formatted text is in place")
		}
	} else {
		zzReach("killed")
	}
	zzWitness("end")
}

// ZZC18Check: `evy fmt -c` exits zero exactly for formatted input and
// modifies nothing.
func ZZC18Check() {
	ci := zzChoice("content", len(zzC18Sources))
	src := zzC18Sources[ci]
	formatted, ferr := format([]byte(src), false)
	path := zzFSPath("a.evy")
	mode := zzInt("mode", 0, 0o777)
	zzAssume(mode&0o400 != 0)
	zzFSPut(path, src, mode)
	cmd := &fmtCmd{Check: true, Files: []string{path}}
	err := cmd.Run()
	data, m, ok := zzFSGet(path)
	zzAssert(ok && data == src && m == mode, "C18 -c: check mode modifies nothing")
	if ferr != nil {
		zzAssert(err != nil && errors.Is(err, errParse), "C18 -c: unparsable input is a parse error")
	} else {
		zzAssert((err == nil) == (src == formatted), "C18 -c: exits zero exactly for input that is already formatted")
		if err != nil {
			zzAssert(errors.Is(err, errNotFormatted), "C18 -c: unformatted input reports errNotFormatted")
		}
	}
	files := zzFSFiles()
	zzAssert(len(files) == 1, "C18 -c: no other file is created")
	zzWitness("end")
}

// ZZC18Txtar: archives with several .evy members of every content class in
// every order, with -w and with -c: one member that does not parse (wherever
// it sits) leaves the archive untouched with an error; -c exits zero exactly
// when every member is formatted; -w rewrites every member and nothing else.
func ZZC18Txtar() {
	M := zzParam("M", 2)
	n := 2 + zzChoice("members", M-1)
	write := zzChoice("write", 2) == 1
	orig, want := "comment\n", "comment\n"
	allParse, allFormatted := true, true
	for k := 0; k < n; k++ {
		src := zzC18Sources[zzChoice("content", len(zzC18Sources))]
		formatted, ferr := format([]byte(src), false)
		name := "-- m" + string(rune('a'+k)) + ".evy --\n"
		orig += name + src
		want += name + formatted
		if ferr != nil {
			allParse = false
		} else if formatted != src {
			allFormatted = false
		}
		if k == 0 {
			orig += "-- notes.txt --\nkeep   me\n"
			want += "-- notes.txt --\nkeep   me\n"
		}
	}
	path := zzFSPath("a.txtar")
	zzFSPut(path, orig, 0o644)
	err := (&fmtCmd{Write: write, Check: !write, Files: []string{path}}).Run()
	data, m, ok := zzFSGet(path)
	zzAssert(ok && m == 0o644, "C18 txtar: the archive still exists with its permission bits")
	switch {
	case !allParse:
		zzReach("txtar-unparsable")
		zzAssert(err != nil, "C18 txtar: a member that does not parse gives an error (non-zero exit), wherever it sits in the archive")
		zzAssert(data == orig, "C18 txtar: an archive with a member that does not parse is left untouched")
	case !write:
		zzReach("txtar-check")
		zzAssert((err == nil) == allFormatted, "C18 txtar: -c exits zero exactly when every member is already formatted")
		zzAssert(data == orig, "C18 txtar: -c modifies nothing")
	default:
		zzReach("txtar-write")
		zzAssert(err == nil && data == want, "C18 txtar: -w formats every .evy member and leaves the other members alone")
	}
	zzAssert(len(zzFSFiles()) == 1, "C18 txtar: no temporary file is left behind")
	zzWitness("end")
}
