//go:build verif

package lexer

// C03 (lexer) — lexing is total and every token is located.
//
// Input: a rune vector of length n <= N, every code point an unconstrained
// Unicode scalar value (NUL, \r, quotes, backslash, letters of any script).
// strconv.Unquote is a nondeterministic stub (any result, error or not).

func ZZC03Lexer() {
	N := zzParam("N", 3)
	n := zzChoice("n", N+1)
	in := make([]rune, n)
	for k := range in {
		in[k] = zzRune("r")
	}
	zzCheckLex(in)
	zzWitness("end")
}

// zzLexAlphabet: one representative of every character class the lexer
// distinguishes (quote, backslash, newline, letters incl. non-ASCII, digit,
// dot, blank, tab, carriage return, slash, operators that pair up, brackets).
var zzLexAlphabet = []rune{'"', '\\', '\n', 'a', ' ', '1', '/', '.', ':', '=', 'é', '\t', '\r', '-', '!', '<', '(', '#'}

// ZZC03LexSeq: every sequence of up to M characters of the class alphabet
// (longer inputs than the fully symbolic ZZC03Lexer reaches: strings with
// escapes that span lines, comments, multi-character operators, numbers).
func ZZC03LexSeq() {
	M := zzParam("M", 4)
	A := zzParam("A", len(zzLexAlphabet))
	if A > len(zzLexAlphabet) {
		A = len(zzLexAlphabet)
	}
	n := 1 + zzChoice("n", M)
	in := make([]rune, n)
	for k := range in {
		in[k] = zzLexAlphabet[zzChoice("c", A)]
	}
	if !zzSymbolic() {
		zzLog("input: " + string(in))
	}
	zzCheckLex(in)
	zzWitness("end")
}

func zzCheckLex(in []rune) {
	n := len(in)
	l := &Lexer{input: in, pos: -1, line: 1}
	prevEnd := 0
	ntok := 0
	for {
		tok := l.Next()
		ntok++
		zzAssert(ntok <= n+1, "C03 lexer: reaches EOF within n+1 tokens")
		if ntok > n+1 {
			return
		}
		zzAssert(tok.Offset >= 0 && tok.Offset <= n, "C03 lexer: token offset inside the input")
		// position bookkeeping: line = 1 + newlines before the token, col counts from the last newline
		line, col := 1, 1
		for k := 0; k < tok.Offset && k < n; k++ {
			if in[k] == '\n' {
				line++
				col = 1
			} else {
				col++
			}
		}
		zzAssert(tok.Line == line, "C03 lexer: token line is 1 + the number of newlines before it")
		zzAssert(tok.Col == col, "C03 lexer: token column counts code points from the start of its line")
		if tok.Type == EOF {
			// end of input, or a NUL character which the lexer treats as end of input
			zzAssert(tok.Offset == n || in[tok.Offset] == 0, "C03 lexer: EOF only at the end of the input (or at a NUL)")
			zzAssert(tok.Offset == prevEnd, "C03 lexer: tokens tile the input up to EOF")
			zzReach("eof")
			break
		}
		zzAssert(tok.Offset == prevEnd, "C03 lexer: tokens tile the input (no gap, no overlap)")
		end := l.pos + 1
		zzAssert(end > tok.Offset && end <= n, "C03 lexer: every token consumes at least one code point and stays inside the input")
		prevEnd = end
		if tok.Type == ILLEGAL {
			zzReach("illegal")
		}
		if tok.Type == IDENT {
			zzReach("ident")
		}
		if tok.Type == STRING_LIT {
			zzReach("string")
		}
	}
}

// ZZC13IsIdent: IsIdent(s) holds exactly for identifiers of the grammar:
// a letter or underscore followed by letters, digits or underscores.
func ZZC13IsIdent() {
	N := zzParam("NI", 3)
	n := zzChoice("n", N+1)
	rs := make([]rune, n)
	for k := range rs {
		rs[k] = zzRune("r")
	}
	got := IsIdent(string(rs))
	want := n > 0
	for k, r := range rs {
		ok := isLetter(r)
		if k > 0 && isDigit(r) {
			ok = true
		}
		if !ok {
			want = false
		}
	}
	zzAssert(got == want, "C13 IsIdent: true exactly for LETTER { LETTER | DIGIT } (keys printed bare by repr must be identifiers)")
	zzWitness("end")
}
