//go:build verif

package learn

import (
	"bytes"
	"crypto/rsa"
	"encoding/base64"
	"strings"
)

// C20 — sealed answers round-trip and answer verification is exact.
//
// The cryptographic primitives are ideal stubs (see assumptions); the
// envelope, the seal/unseal state machine and the verification logic are
// the real code.

func zzPub(id int) *rsa.PublicKey   { return &rsa.PublicKey{E: id} }
func zzPriv(id int) *rsa.PrivateKey { return &rsa.PrivateKey{PublicKey: rsa.PublicKey{E: id}} }

var zzAnswers = []string{"a", "a, c", "", "ünïcödé ✓ text\nline 2", "x"}

// ZZC20Envelope: hybridDecrypt(priv, hybridEncrypt(pub, m)) == m; a
// corrupted / truncated / other-key envelope is rejected or still yields m;
// no byte string crashes hybridDecrypt.
func ZZC20Envelope() {
	L := zzParam("L", 6) // length of the RSA part (key size in bytes) in the model
	zzCryptoRSALen(L)
	m := zzAnswers[zzChoice("msg", len(zzAnswers))]
	ct, err := hybridEncrypt(zzPub(1), []byte(m))
	zzAssert(err == nil, "C20 envelope: encryption succeeds")
	if err != nil {
		return
	}
	zzAssert(len(ct) == 3+L+len(m)+16, "C20 envelope: version + length prefix + RSA part + sealed text")
	switch zzChoice("attack", 7) {
	case 5, 6: // cut and paste between two sealed values of the same key
		m2 := zzAnswers[zzChoice("msg2", len(zzAnswers))]
		ct2, err2 := hybridEncrypt(zzPub(1), []byte(m2))
		zzAssert(err2 == nil, "C20 envelope: second encryption succeeds")
		if err2 != nil || m2 == m {
			zzAssume(false)
		}
		cut := 3 + L // end of the RSA part
		if zzChoice("cutat", 2) == 1 {
			cut = zzInt("cut", 1, len(ct)-1)
			if cut > len(ct2) {
				zzAssume(false)
			}
		}
		spliced := append(append([]byte{}, ct[:cut]...), ct2[cut:]...)
		if bytes.Equal(spliced, ct) || bytes.Equal(spliced, ct2) {
			zzAssume(false)
		}
		pt, err := hybridDecrypt(zzPriv(1), spliced)
		if err == nil {
			zzLog("spliced sealed values of " + m + " and " + m2 + " decrypt to " + string(pt))
		}
		zzAssert(err != nil, "C20 envelope: the head of one sealed value joined to the tail of another is rejected (an altered value never yields a different answer)")
		zzReach("spliced")
	case 0: // round trip
		pt, err := hybridDecrypt(zzPriv(1), ct)
		zzAssert(err == nil && string(pt) == m, "C20 envelope: decrypting with the matching key returns the original text")
		zzReach("roundtrip")
	case 1: // other key
		pt, err := hybridDecrypt(zzPriv(2), ct)
		zzAssert(err != nil || string(pt) == m, "C20 envelope: another key is rejected (or still yields the original)")
		zzReach("otherkey")
	case 2: // single-byte corruption at a symbolic position with a symbolic value
		pos := zzInt("pos", 0, len(ct)-1)
		b := zzByte("byte")
		mod := append([]byte{}, ct...)
		mod[pos] = b
		pt, err := hybridDecrypt(zzPriv(1), mod)
		if err == nil {
			zzAssert(string(pt) == m, "C20 envelope: an altered sealed value is rejected or still yields the original answer, never a different one")
			zzReach("corrupt-accepted")
		} else {
			zzReach("corrupt-rejected")
		}
	case 3: // truncation at a symbolic length
		n := zzInt("len", 0, len(ct))
		pt, err := hybridDecrypt(zzPriv(1), ct[:n])
		if err == nil {
			zzAssert(string(pt) == m, "C20 envelope: a truncated sealed value is rejected or still yields the original answer")
		}
		zzReach("truncated")
	case 4: // arbitrary short byte strings never crash the decoder
		n := zzChoice("n", 6)
		raw := make([]byte, n)
		for k := range raw {
			raw[k] = zzByte("raw")
		}
		_, err := hybridDecrypt(zzPriv(1), raw)
		zzAssert(err != nil, "C20 envelope: arbitrary bytes are rejected")
		zzReach("garbage")
	}
	zzWitness("end")
}

func zzKeyB64(kind string, id int) string {
	return base64.StdEncoding.EncodeToString([]byte(kind + ":" + string(rune('0'+id))))
}

// ZZC20Seal: Seal/Unseal on the front matter.
func ZZC20Seal() {
	ans := zzAnswers[zzChoice("msg", len(zzAnswers))]
	pub, priv, otherPriv := zzKeyB64("pub", 1), zzKeyB64("priv", 1), zzKeyB64("priv", 2)
	// every answer type; for the choice types also answers that are not in canonical form:
	// Seal / Unseal must give back the text as it was written
	at := []answerType{"text", "multiple-choice", "single-choice"}[zzChoice("atype", 3)]
	if at != "text" {
		choiceTexts := []string{"a", "b, c", "a,c,d", "a ,  d", "C", " b", "d,a"}
		if at == "single-choice" {
			choiceTexts = []string{"a", "C", " b", "d "}
		}
		ans = choiceTexts[zzChoice("choicetext", len(choiceTexts))]
	}
	f := &questionFrontmatter{Type: "question", AnswerType: at, Answer: ans}
	err := f.Seal(pub)
	if ans == "" {
		zzAssert(err != nil, "C20 seal: an empty answer cannot be sealed")
		zzWitness("end-empty")
		return
	}
	zzAssert(err == nil, "C20 seal: sealing succeeds")
	zzAssert(f.Answer == "" && f.SealedAnswer != "", "C20 seal: sealed and unsealed answer never coexist (after Seal)")
	sealed := f.SealedAnswer
	zzAssert(f.Seal(pub) == nil && f.SealedAnswer == sealed, "C20 seal: sealing twice changes nothing")
	switch zzChoice("then", 3) {
	case 0:
		err = f.Unseal(priv)
		zzAssert(err == nil && f.Answer == ans && f.SealedAnswer == "", "C20 seal: Unseal after Seal restores the front matter")
		zzAssert(f.Unseal(priv) == nil && f.Answer == ans, "C20 seal: unsealing twice changes nothing")
		zzReach("unsealed")
	case 1:
		err = f.Unseal(otherPriv)
		zzAssert(err != nil, "C20 seal: unsealing with another key is rejected")
		zzAssert(f.SealedAnswer == sealed && f.Answer == "", "C20 seal: a failed Unseal leaves the front matter unchanged")
		zzReach("wrongkey")
	case 2:
		if at != "text" {
			zzAssume(false) // getAnswer parses choice answers: C20Verify's subject
		}
		a, err := f.getAnswer(priv)
		zzAssert(err == nil && a.Text == ans, "C20 seal: getAnswer with the private key returns the sealed text")
		_, err = f.getAnswer("")
		zzAssert(err != nil, "C20 seal: a sealed answer is not readable without a key")
		zzReach("getanswer")
	}
	zzWitness("end")
}

type zzRend struct{ out string }

func (r zzRend) RenderOutput() string       { return r.out }
func (r zzRend) RenderHTML(_ *bytes.Buffer) {}

// ZZC20Verify: Verify accepts exactly when the marked choices are precisely
// the choices whose output equals the question's output.
func ZZC20Verify() {
	N := zzParam("N", 3)
	n := 1 + zzChoice("n", N)
	single := zzChoice("single", 2) == 1
	var choices []Renderer
	match := make([]bool, n)
	for i := 0; i < n; i++ {
		match[i] = zzChoice("match", 2) == 1
		if match[i] {
			choices = append(choices, zzRend{"Q-out\n"})
		} else {
			choices = append(choices, zzRend{"other" + string(rune('0'+i)) + "\n"})
		}
	}
	// marked letters: a symbolic subset of the n choices plus one letter beyond them
	var marked []string
	markedIdx := map[int]bool{}
	for i := 0; i <= n; i++ {
		if zzChoice("marked", 2) == 1 {
			marked = append(marked, string(rune('a'+i)))
			markedIdx[i] = true
		}
	}
	if len(marked) == 0 || (single && len(marked) != 1) {
		zzAssume(false)
	}
	at := answerType("multiple-choice")
	if single {
		at = "single-choice"
	}
	m := &QuestionModel{
		configurableModel: &configurableModel{filename: "q.md"},
		Frontmatter:       &questionFrontmatter{Type: "question", AnswerType: at, Answer: strings.Join(marked, ", ")},
		Question:          zzRend{"Q-out\n"},
		AnswerChoices:     choices,
	}
	err := m.Verify()
	exact := !markedIdx[n]
	for i := 0; i < n; i++ {
		if markedIdx[i] != match[i] {
			exact = false
		}
	}
	zzAssert((err == nil) == exact, "C20 verify: accepted exactly when the marked choices are precisely the choices whose output equals the question's")
	if err == nil {
		zzReach("verify-ok")
	} else {
		zzReach("verify-rejects")
	}
	zzWitness("end")
}


// ZZC20Text: a text question is verified exactly when the marked answer text
// equals the question's output (surrounding white space aside): a different
// line, a missing line, extra lines, a proper prefix or the empty text are
// all rejected.
func ZZC20Text() {
	outs := []string{"one\n", "one\ntwo\n", "one\n\ntwo\n", "x\n"}
	q := outs[zzChoice("question", len(outs))]
	cands := []string{q, strings.TrimSpace(q), "  " + q + "\n", q + "extra\n", q + "\nextra\n", "extra\n" + q, "one\n", "one\ntwo\nthree\n", "two\n", "one\ntwo", "", "one", "on", "one\n\n\ntwo\n"}
	a := cands[zzChoice("answer", len(cands))]
	if strings.TrimSpace(a) == "" {
		zzAssume(false) // an empty answer is refused earlier, by the front-matter validation
	}
	m := &QuestionModel{
		configurableModel: &configurableModel{filename: "q.md"},
		Frontmatter:       &questionFrontmatter{Type: "question", AnswerType: "text", Answer: a},
		Question:          zzRend{q},
	}
	err := m.Verify()
	want := strings.TrimSpace(a) == strings.TrimSpace(q)
	zzAssert((err == nil) == want, "C20 text: a text question is accepted exactly when the answer text equals the question's output")
	if err == nil {
		zzReach("text-ok")
	} else {
		zzReach("text-rejects")
	}
	zzWitness("end")
}
