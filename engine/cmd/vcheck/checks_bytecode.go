package main

import "time"

func bcUnit(files []string, hs ...Harness) Unit {
	return Unit{PkgDir: "pkg/bytecode", PkgPath: "evylang.dev/evy/pkg/bytecode", PkgName: "bytecode", Files: files, Harnesses: hs}
}

func init() {
	register(Check{
		ID: "C16", Title: "Compiled bytecode behaves like the tree-walking evaluator", Level: "translation_validation",
		Units: []Unit{bcUnit([]string{"bytecode/c17.go", "bytecode/c16.go"},
			Harness{Fn: "ZZC16Diff", Expect: []string{"compared", "unsupported", "eval-panics", "vm-divzero", "witness:end"}, MaxInstr: 5_000_000},
			Harness{Fn: "ZZC16Gen", Quick: p("GD", 2, "GL0", 1, "GL1", 2, "GL2", 1), Thorough: p("GD", 2, "GL0", 2, "GL1", 2, "GL2", 1), ThoroughBudget: 25 * time.Minute, Expect: []string{"compared", "witness:end"}, MaxInstr: 5_000_000},
		)},
		Assumptions: []string{
			"ZZC16Gen: generated programs over the supported subset (assignments to a global accumulator, block-local declarations before and after nested blocks read back as first and later operands, if/else, while, numeric and array ranges, break), depth GD, block lengths GL0..GL2; 42 templates wrap every untranslatable construct into every block kind",
			"program family: 37 templates over the whole language (arithmetic, comparison, strings, arrays, maps, if/while/for in all four range forms, break, shadowing, nested locals, composite equality, and 7 constructs without a translation); the two leading declarations carry unconstrained float64 values (templates that index or iterate restrict them to small integers and halves)",
			"evaluator globals are observed through `print <global>`; VM globals through the compiler's symbol table",
			"math.Mod is an uninterpreted function on both sides",
		},
		Outside:   []string{"programs outside the template family", "loop trip counts are concrete in every template (unwinding = the template's own bound)"},
		LevelText: "translation validation decided by the solver: for every template and all values of the symbolic leaves, Compiler.Compile + VM.Run (all compile* functions, Make, SymbolTable, every executed opcode, bytecode/value.go) is compared global by global with Evaluator.Eval on the same text; unsupported constructs must be compile errors",
		LevelNote: "trusts the rendering of VM values in the harness, the error-class correspondence table, the engine and cvc5; known findings of the in-progress compiler are listed in known_findings.json by template",
		DesignRef: "DESIGN.md §6 C16",
		Technique: technique,
	})
	register(Check{
		ID: "C17", Title: "Emitted bytecode is well formed and the VM cannot be crashed", Level: "model_checking",
		Units: []Unit{bcUnit([]string{"bytecode/c17.go", "bytecode/c16.go"},
			Harness{Fn: "ZZC17Operand", Expect: []string{"make-ok", "witness:end"}},
			Harness{Fn: "ZZC17Patch", Expect: []string{"witness:end"}},
			Harness{Fn: "ZZC17SymbolStep", Quick: p("D", 3), Thorough: p("D", 4), Expect: []string{"define", "push-define", "pop", "witness:end"}},
			Harness{Fn: "ZZC17Emitted", Expect: []string{"emitted-ran", "witness:end"}, MaxInstr: 5_000_000},
			Harness{Fn: "ZZC17Gen", Quick: p("GD", 2, "GL0", 1, "GL1", 2, "GL2", 1), Thorough: p("GD", 2, "GL0", 2, "GL1", 2, "GL2", 1), ThoroughBudget: 25 * time.Minute, Expect: []string{"emitted-ran", "witness:end"}, MaxInstr: 5_000_000},
		)},
		Assumptions: []string{
			"ZZC17Gen: the verifier and the VM on the generated programs of ZZC16Gen",
			"symbol-table step: pre-state = chain of 1..D tables with symbolic counters and symbolic distinct slots inside [base,index) (the representation invariant; base = parent's counter for nested local scopes), one Define / Push+Define / Pop with a symbolic name",
			"verifier: abstract stack heights per opcode as documented in vm.go; the loop-variable push of OpStepRange/OpIterRange is attributed to the continuing edge of the following OpJumpOnFalse",
		},
		Outside:   []string{"programs outside the template family for the verifier part; chains deeper than D", "memory exhaustion by legitimately huge data"},
		LevelText: "encoding lemmas (Make/ReadOperands/changeOperand for every int operand, decided by the solver over 2^41 values), an inductive step of SymbolTable.Define/Push/Pop/Resolve from an arbitrary valid chain with symbolic counters and slots, and a bytecode verifier + symbolic VM run over the emitted code of the C16 program family",
		LevelNote: "trusts the stack-effect table in the harness, the engine and cvc5",
		DesignRef: "DESIGN.md §6 C17",
		Technique: technique,
	})
}
