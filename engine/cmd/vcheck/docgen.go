package main

import (
	"fmt"
	"os"
	"path/filepath"
	"strings"
)

// docExamples extracts (program, input lines, documented output) triples from
// the fenced blocks of the repository's documentation: an ```evy block
// followed (before the next ```evy block) by an ```evy:output block, with an
// optional ```evy:input block in between.
func docExamples(files []string) (srcs, ins, outs []string) {
	for _, f := range files {
		b, err := os.ReadFile(filepath.Join(repoDir, f))
		if err != nil {
			continue
		}
		lines := strings.Split(string(b), "\n")
		var curSrc, curIn string
		haveSrc := false
		for i := 0; i < len(lines); i++ {
			l := strings.TrimSpace(lines[i])
			if !strings.HasPrefix(l, "```") || l == "```" {
				continue
			}
			tag := strings.TrimPrefix(l, "```")
			var body []string
			j := i + 1
			for ; j < len(lines) && strings.TrimSpace(lines[j]) != "```"; j++ {
				body = append(body, lines[j])
			}
			text := strings.Join(body, "\n") + "\n"
			switch tag {
			case "evy":
				curSrc, curIn, haveSrc = text, "", true
			case "evy:input":
				curIn = text
			case "evy:output":
				if haveSrc {
					srcs = append(srcs, curSrc)
					ins = append(ins, curIn)
					outs = append(outs, text)
					haveSrc = false
				}
			default:
				haveSrc = false
			}
			i = j
		}
	}
	return
}

// genDocHarness writes a harness file with the documentation examples of
// /repo's current working tree embedded as a table.
func genDocHarness(tmp, pkg string) (string, int, error) {
	srcs, ins, outs := docExamples([]string{"docs/builtins.md", "docs/spec.md"})
	var sb strings.Builder
	fmt.Fprintf(&sb, "//go:build verif\n\npackage %s\n\n// Generated on every run from docs/builtins.md and docs/spec.md of the current tree.\nvar zzDocExamples = []struct{ src, in, out string }{\n", pkg)
	for k := range srcs {
		fmt.Fprintf(&sb, "\t{%q, %q, %q},\n", srcs[k], ins[k], outs[k])
	}
	sb.WriteString("}\n")
	p := filepath.Join(tmp, "zz_verif_docs_gen.go")
	return p, len(srcs), os.WriteFile(p, []byte(sb.String()), 0o644)
}
