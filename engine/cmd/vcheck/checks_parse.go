package main

import "time"

var _ = time.Minute

func lexUnit(files []string, hs ...Harness) Unit {
	return Unit{PkgDir: "pkg/lexer", PkgPath: "evylang.dev/evy/pkg/lexer", PkgName: "lexer", Files: files, Harnesses: hs}
}

func parserUnit(files []string, hs ...Harness) Unit {
	return Unit{PkgDir: "pkg/parser", PkgPath: "evylang.dev/evy/pkg/parser", PkgName: "parser", Files: files, Harnesses: hs}
}

func init() {
	register(Check{
		ID: "C03", Title: "Parsing is total and every diagnostic is located", Level: "model_checking",
		Units: []Unit{
			lexUnit([]string{"lexer/c03.go"},
				Harness{Fn: "ZZC03Lexer", Quick: p("N", 2), Thorough: p("N", 3), ThoroughBudget: 10 * time.Minute, Expect: []string{"eof", "illegal", "ident", "string", "witness:end"}},
				Harness{Fn: "ZZC03LexSeq", Quick: p("M", 4), Thorough: p("M", 5, "A", 13), ThoroughBudget: 20 * time.Minute, Expect: []string{"eof", "illegal", "ident", "string", "witness:end"}},
			),
			parserUnit([]string{"parser/c03p.go"},
				Harness{Fn: "ZZC03Parser", Quick: p("E", 1, "INS", 28), Thorough: p("E", 1, "INS", 45), ThoroughBudget: 40 * time.Minute, Expect: []string{"accepted", "rejected", "witness:end"}},
				Harness{Fn: "ZZC03Locate", Quick: p("K", 3), Thorough: p("K", 4), Expect: []string{"locate-ok", "witness:end"}},
				Harness{Fn: "ZZC03Tokens", Quick: p("L", 2), Thorough: p("L", 3, "A", 30), ThoroughBudget: 45 * time.Minute, Expect: []string{"accepted", "rejected", "witness:end"}},
			),
		},
		Assumptions: []string{
			"ZZC03Locate: one culprit (unknown variable / call without value) at every position of lists of 2..K items in 6 contexts, one-line and multi-line",
			"ZZC03LexSeq: every sequence of up to M characters of an 18-character class alphabet (quote, backslash, newline, letters incl. non-ASCII, digit, dot, blanks, CR, slash, operators, bracket, illegal); ZZC03Tokens: every sequence of up to L lexemes of a 44-lexeme alphabet, glued or separated by a blank, with and without a preamble of declarations",
			"parser: inputs are all single (thorough: double) token-level edits — truncation at every code point, deletion, duplication, replacement by and insertion of each of 37 fragments — of a corpus of 16 valid programs covering every statement and expression form; builtins: print, len, has, cls, on key/down, err",
			"lexer: every code point of the input is an unconstrained Unicode scalar value; unicode.IsLetter/IsDigit are the range tables of the Go release the engine is built with, as bit-vector formulas; strconv.Unquote is a nondeterministic stub",
		},
		Outside:   []string{"inputs longer than N code points (lexer)", "parser inputs outside the single-edit neighbourhood of the corpus and the lexeme sequences of ZZC03Tokens (two simultaneous edits of a corpus program were explored during development but do not finish within a stated budget and are not claimed)", "invalid UTF-8 byte sequences (Go converts them to U+FFFD before the lexer sees them)"},
		LevelText: "bounded exploration of parser.Parse (newParser, consumeTokens, parseFuncSignatures, parseProgram and every parse* function, wrapAny, appendErrorForToken) on every edit of the corpus: no host panic (implicit check on every path), program xor non-empty located errors, each error token's line/column recomputed from its offset; and bounded symbolic execution of lexer.Next/advance/readString/readWhile/readIdent/readNum/readComment/lookupKeyword/IsIdent on rune vectors of every length up to N with fully symbolic code points: termination within n+1 tokens, tiling, and line/column bookkeeping",
		LevelNote: "trusts the rune-vector string model of the engine and cvc5",
		DesignRef: "DESIGN.md §6 C03",
		Technique: technique,
	})
}
