package main

import "time"

var evalCommon = []string{"evaluator/common.go"}

func init() {
	register(Check{
		ID: "C01", Title: "Expressions evaluate as the language definition prescribes", Level: "model_checking",
		Units: []Unit{evalUnit([]string{"evaluator/common.go", "evaluator/c01.go", "evaluator/c09.go"},
			Harness{Fn: "ZZC09Alias", Expect: []string{"alias-ok", "witness:end"}},
			Harness{Fn: "ZZC09Fresh", Expect: []string{"fresh-ok", "witness:end"}},
			Harness{Fn: "ZZC01Expr", Quick: p("D", 1), Thorough: p("D", 2), ThoroughBudget: 25 * time.Minute, Expect: []string{"expr-ok", "witness:end"}, Cross: true},
			Harness{Fn: "ZZC01Pairs", Expect: []string{"pair", "expr-ok", "witness:end"}},
			Harness{Fn: "ZZC01Args", Expect: []string{"args-ok", "witness:end"}},
			Harness{Fn: "ZZC01Print", Quick: p("PD", 1), Thorough: p("PD", 2), ThoroughBudget: 20 * time.Minute, Expect: []string{"print-ok", "witness:end"}},
			Harness{Fn: "ZZC01Equal", Quick: p("ED", 1), Thorough: p("ED", 2), ThoroughBudget: 20 * time.Minute, Expect: []string{"equal-ok", "witness:end"}},
			Harness{Fn: "ZZC01Effects", Quick: p("NE", 3), Thorough: p("NE", 4), Expect: []string{"effects-ok", "witness:end"}},
			Harness{Fn: "ZZC01Lists", Quick: p("N", 3), Thorough: p("N", 4), Expect: []string{"lists-ok", "witness:end"}},
		)},
		Assumptions: []string{
			"ZZC01Effects: argument lists, array literals, map literals and user-function arguments of 2..NE elements drawn from 8 element kinds that read or change err, errmsg and a global (conversions, a bumping function); expected values from a left-to-right state machine in the harness",
			"expression trees up to depth D over + - * / % unary-minus, < <= > >= == != on nums and strings, and/or/!, string +, index, calls of printing functions; numeric and bool leaves are unconstrained symbolic values, string leaves from {\"\", \"añ\", \"b\"}",
			"math.Mod is an uninterpreted function on both sides; FormatFloat results are opaque atoms compared by their argument terms",
			"the reference evaluation is written from docs/spec.md (precedence table, left-to-right associativity and evaluation, short-circuit and/or)",
			"ZZC01Lists explores every Go map iteration order (mapOrder=all) for map literal values",
		},
		Outside:   []string{"trees deeper than D", "digit generation of number printing (strconv.FormatFloat)", "array/map operators beyond literal evaluation order (C09, C12)"},
		LevelText: "bounded symbolic execution of lexer.Next, parser.Parse (Pratt parser: precedences, parseExpr, parseBinaryExpr, parseUnaryExpr, parseGroupedExpr, isAtExprEnd, WSS stack) and Evaluator.Eval (evalBinaryExpr, canShortCircuit, evalBinaryNum/String/BoolExpr, evalUnaryExpr, evalExprList, evalMapLiteral, evalFunccall, print/join) on every expression tree up to depth D, in minimal and full parenthesisation and spaced and tight layout, with symbolic leaf values, compared with a reference evaluation of the generator's tree (value, printed text, order of side effects)",
		LevelNote: "trusts the reference evaluator and the minimal-parenthesisation renderer in the harness, the engine and cvc5",
		DesignRef: "DESIGN.md §6 C01",
		Technique: technique,
	})
	register(Check{
		ID: "C10", Title: "Lexical scoping and structured control flow", Level: "model_checking",
		Units: []Unit{evalUnit([]string{"evaluator/common.go", "evaluator/gen.go", "evaluator/gen2.go", "evaluator/c10.go", "evaluator/c12.go", "evaluator/c15.go"},
			Harness{Fn: "ZZC15Events", Quick: p("E", 2, "H", 1), Thorough: p("E", 2, "H", 2), Expect: []string{"events-ok", "witness:end"}},
			Harness{Fn: "ZZC12Iter", Quick: p("K", 3), Thorough: p("K", 4), Expect: []string{"iter-ok", "witness:end"}},
			Harness{Fn: "ZZC10Structure", Quick: p("D", 2, "L0", 1, "L1", 1, "L2", 1), Thorough: p("D", 2, "L0", 1, "L1", 2, "L2", 1, "DECLFIRST", 1), ThoroughBudget: 25 * time.Minute, Expect: []string{"structure-ok", "witness:end"}},
			Harness{Fn: "ZZC10Range", Quick: p("U", 3), Thorough: p("U", 5), Expect: []string{"range-ok", "zero-step", "witness:end"}, Cross: true},
			Harness{Fn: "ZZC10LoopExit", Expect: []string{"loopexit-ok", "witness:end"}},
			Harness{Fn: "ZZC10Funcs", Quick: p("D", 2, "L0", 1, "L1", 1, "L2", 1, "R", 1), Thorough: p("D", 2, "L0", 2, "L1", 1, "L2", 1, "R", 2), ThoroughBudget: 25 * time.Minute, Expect: []string{"funcs-f", "funcs-g", "witness:end"}},
		)},
		Assumptions: []string{
			"ZZC10Funcs: programs with a recursive function f (parameter named x or p, recursion depth R), a procedure g (parameter named y or q), calls from inside loops and before the definitions, shadowing declarations, return and break at any depth; one of the four blocks (main, two blocks of f, the block of g) is generated per path, the others are fixed templates; ZZC10Range bodies optionally assign to the loop variable; ZZC15Events (shadowed globals) is also run here",
			"program family: nestings up to depth D of if / if-else / while / for over num, array, string, map / procedure call (defined after use), with shadowing declarations of x, assignments, prints, break and return in every legal position; blocks of at most L0/L1/L2 statements at depth 0/1/2; the global x and both condition variables are symbolic",
			"numeric ranges: start, stop, step unconstrained finite float64; ranges of more than U iterations are cut by an assumption on the harness side (stated bound), not by truncation",
			"the reference interpreter in the harness is written from docs/spec.md and trusted",
		},
		Outside:   []string{"deeper nesting / longer blocks", "recursion", "NaN or infinite range operands (outside the property's quantifier)"},
		LevelText: "bounded symbolic execution of the parser's scope handling and of evalStatments/evalIf/evalWhile/evalFor/newRange/newStepRange/stepRange,arrayRange,stringRange,mapRange.next/pushScope/pushFuncScope/evalFunccall/scope.get,set,update on every generated nesting and every finite range triple, compared with an independent reference interpreter on the same symbolic values",
		LevelNote: "trusts the reference interpreter and generator in the harness, the engine and cvc5",
		DesignRef: "DESIGN.md §6 C10",
		Technique: technique,
	})
	register(Check{
		ID: "C09", Title: "Basic values are copied, composites are shared", Level: "model_checking",
		Units: []Unit{evalUnit([]string{"evaluator/common.go", "evaluator/c09.go"},
			Harness{Fn: "ZZC09Alias", Expect: []string{"alias-ok", "witness:end"}},
			Harness{Fn: "ZZC09ErrCopies", Expect: []string{"errcopies-ok", "witness:end"}},
			Harness{Fn: "ZZC09Fresh", Expect: []string{"fresh-ok", "witness:end"}},
		)},
		Assumptions: []string{
			"ZZC09ErrCopies: 13 ways of reading err/errmsg x 14 ways of storing a basic value x both directions of the later flip; ZZC09Fresh: 14 fresh-container operations (slices, concatenation with empty and non-empty operands on either side, repetition) and 3 sharing operations, flat and nested, updated from both sides",
			"scenario table: 46 alias scenarios = way the alias is made (declaration, assignment, argument, variadic argument, return, array element, map value, any wrapping, loop variable, slice, concatenation, repetition, err/errmsg read) x update (variable, element, field, del, inside callee) x observation; old and new values are unconstrained symbolic numbers",
			"expected outputs follow from the copy-vs-share rule of docs/spec.md written next to each scenario",
		},
		Outside:   []string{"alias chains longer than the scenarios (three names at most)", "scenarios outside the table"},
		LevelText: "bounded symbolic execution of evalDecl/evalAssignment/evalAssignIndexExpr/evalAssignDotExpr/evalExprList/evalMapLiteral/evalFunccall/copyOrRef/deepCopy/arrayVal.Copy,Slice/evalBinaryArrayExpr/scope.update/value.Set/globalErr/arrayRange.next on every scenario for all values, plus a heap-shape lemma on the interpreter's concrete heap (no two bindings or elements share a basic-value cell)",
		LevelNote: "trusts the scenario expectations, the engine and cvc5",
		DesignRef: "DESIGN.md §6 C09",
		Technique: technique,
	})
	register(Check{
		ID: "C04", Title: "Static typing rules are exactly those of the specification", Level: "model_checking",
		Units: []Unit{evalUnit([]string{"evaluator/common.go", "evaluator/c04.go"},
			Harness{Fn: "ZZC04Assign", Quick: p("D", 1), Thorough: p("D", 2), Expect: []string{"accepted", "rejected", "witness:end"}},
			Harness{Fn: "ZZC04Infer", Expect: []string{"infer-ok", "witness:end"}},
			Harness{Fn: "ZZC04Params", Quick: p("D", 1), Thorough: p("D", 2), Expect: []string{"params-accepted", "params-rejected", "witness:end"}},
			Harness{Fn: "ZZC04Range", Quick: p("RN", 2), Thorough: p("RN", 3), ThoroughBudget: 45 * time.Minute, Expect: []string{"range-accepted", "range-rejected", "witness:end"}},
			Harness{Fn: "ZZC04InferGen", Quick: p("K", 2), Thorough: p("K", 3), ThoroughBudget: 50 * time.Minute, Expect: []string{"infergen-ok", "infergen-oracle", "infergen-assign", "witness:end"}},
			Harness{Fn: "ZZC04Ops", Expect: []string{"ops-accepted", "witness:end"}},
		)},
		Assumptions: []string{
			"ZZC04InferGen: literals over every K-tuple of a 24-element pool (constants, empty literals of three shapes, variables of six types, literals containing variables), in every order, as array and as map; the oracle is set based (least general type to which every element is assignable per the Assignability section), literals-with-variables that would have to be generalised are left to the order-independence and acceptance assertions; ZZC04Range: range clauses of 1..RN+1 operands from a 16-expression pool",
			"types: all types over num/string/bool/any with [] and {} up to nesting D (12 types at D=1, 28 at D=2); value kinds: variable, expression of variables, constant literal, empty literal (5 shapes); contexts: typed declaration + assignment, parameter, variadic parameter, return value; operators: all 13 binary and 2 unary operators, index, slice, dot, type assertion, if/while condition, range operand on variables of every type up to nesting 1",
			"the oracle is the assignability section, operator table and inference rules of docs/spec.md transcribed into ~60 lines over type descriptors; ZZC04Infer explores every Go map iteration order inside the parser",
		},
		Outside:   []string{"types nested deeper than D", "literals with more than two elements", "combinations of several rules in one statement beyond the listed contexts"},
		LevelText: "exhaustive exploration (every cell of the bounded type x kind x context space executed on the real code) of parser.Parse — accepts, matches, infer, combineTypes, fixedType, wrapAny, validateBinaryType, validateUnaryType, validateIndex, parseSlice, parseTypeAssertion, assertArgTypes, parseReturnStatement, parseCondition, parseForStatement — against the specification oracle, plus typeof of every accepted program through the evaluator",
		LevelNote: "trusts the transcription of docs/spec.md in the harness; purely structural data (types), so the solver acts as the complete enumerator of the bounded space",
		DesignRef: "DESIGN.md §6 C04",
		Technique: technique,
	})
	register(Check{
		ID: "C05", Title: "Invalid programs are rejected and nothing of them runs", Level: "model_checking",
		Units: []Unit{evalUnit([]string{"evaluator/common.go", "evaluator/c05.go"},
			Harness{Fn: "ZZC05Reject", Expect: []string{"valid-runs", "rejected", "witness:end"}},
			Harness{Fn: "ZZC05Returns", Quick: p("RD", 1, "RK", 3), Thorough: p("RD", 1, "RK", 3), Expect: []string{"returns-rejected", "returns-accepted", "witness:end"}},
			Harness{Fn: "ZZC05Returns", Label: "deep", ThoroughOnly: true, Thorough: p("RD", 2, "RK", 1), ThoroughBudget: 25 * time.Minute, Expect: []string{"returns-rejected", "returns-accepted", "witness:end"}},
		), mainUnit([]string{"main/c18.go", "main/c18native.go", "main/c05m.go"},
			Harness{Fn: "ZZC05CLI", Expect: []string{"cli-rejected", "cli-valid", "witness:end"}},
		)},
		Assumptions: []string{
			"ZZC05Returns: function, procedure and handler bodies built from return / statement / if-else-if-else chains (1..RK branches, optional else) / while / break up to depth RD; accepted exactly when no statement follows an always-terminating one and a function with a result type cannot reach its end; ZZC05CLI counterexamples are confirmed by running the real evy binary",
			"one rule-breaking edit (25 rules) at every position where it applies (top level early/late, function, procedure, handler, if block, loop body) of a valid skeleton with effects (print, move, cls, read, sleep, calls) in every position",
			"CLI: model file system, os.Exit/stdout/stderr/sleep/exec are recording stubs",
		},
		Outside:   []string{"programs with several independent errors", "edits outside the rule table", "the for-all statement 'Run never evaluates when Parse fails' is checked on these programs, not with a nondeterministic Parse stub"},
		LevelText: "exhaustive exploration of the rule x position space on the real parser and evaluator (Evaluator.Run) and on runCmd.Run/handleEvyErr with a recording platform: at least one located error, no platform call at all, non-zero exit status, stderr text, no SVG file",
		LevelNote: "trusts the rule table in the harness and the engine; structural data only, the solver is the enumerator",
		DesignRef: "DESIGN.md §6 C05",
		Technique: technique,
	})
	fmtFiles := []string{"evaluator/common.go", "evaluator/gen.go", "evaluator/c06.go", "evaluator/c02.go", "evaluator/c04.go", "evaluator/c05.go", "evaluator/c08.go", "evaluator/c09.go"}
	fmtUnit := func(hs ...Harness) Unit {
		u := evalUnit(fmtFiles, hs...)
		u.GenDocs = true
		return u
	}
	register(Check{
		ID: "C06", Title: "Formatting changes nothing but whitespace", Level: "model_checking",
		Units: []Unit{fmtUnit(
			Harness{Fn: "ZZC06Corpus", Quick: p("PROP", 6), Thorough: p("PROP", 6), Expect: []string{"corpus-ok", "witness:end"}},
			Harness{Fn: "ZZC06Programs", Quick: p("PROP", 6), Thorough: p("PROP", 6), Expect: []string{"programs-ok", "witness:end"}},
			Harness{Fn: "ZZC06Docs", Quick: p("PROP", 6), Thorough: p("PROP", 6), Expect: []string{"docs-ok", "witness:end"}},
			Harness{Fn: "ZZC06Gen", Quick: p("PROP", 6, "FD", 1, "FL0", 1, "FL1", 1), Thorough: p("PROP", 6, "FD", 2, "FL0", 1, "FL1", 1), ThoroughBudget: 25 * time.Minute, Expect: []string{"gen-ok", "witness:end"}},
			Harness{Fn: "ZZC06GenFlat", Quick: p("PROP", 6, "FLAT", 3), Thorough: p("PROP", 6, "FLAT", 4), Expect: []string{"gen-ok", "witness:end"}},
			Harness{Fn: "ZZC07Seq", Quick: p("PROP", 6, "SEQ", 4), Thorough: p("PROP", 6, "SEQ", 6), Expect: []string{"seq-ok", "witness:end"}},
			Harness{Fn: "ZZC07Num", Quick: p("PROP", 6), Thorough: p("PROP", 6), Expect: []string{"num-ok", "witness:end"}},
			Harness{Fn: "ZZC07Str", Quick: p("PROP", 6, "S", 2), Thorough: p("PROP", 6, "S", 3), Expect: []string{"str-ok", "witness:end"}},
			Harness{Fn: "ZZC06Multi", Quick: p("PROP", 6, "ML", 2), Thorough: p("PROP", 6, "ML", 3), Expect: []string{"multi-ok", "witness:end"}},
			Harness{Fn: "ZZC06Groups", Quick: p("PROP", 6), Thorough: p("PROP", 6), Expect: []string{"groups-ok", "witness:end"}},
			Harness{Fn: "ZZC06Invalid", Quick: p("PROP", 6), Thorough: p("PROP", 6), Expect: []string{"invalid-rejected", "witness:end"}},
		)},
		Assumptions: []string{
			"ZZC07Str: string literals of up to S pieces from 13 (plain, every escape sequence, non-ASCII, format and markup look-alikes) in four syntactic positions; ZZC06Multi: multi-line array/map literals of up to ML lines (element, element with comment, own-line comment, blank line; also comment-only literals) in six positions, at top level and inside a block",
			"inputs: a corpus of 26 hand-written layouts of every syntax form (comments in every position, blank-line runs, multi-line array/map literals, tabs, \\r, missing final newline) and every generated program of the C10 family in a plain and a messy layout (double spaces, tabs, blank-line runs of 1..3, trailing and own-line comments)",
			"number literals are compared by value and comments by trimmed text (the formatter prints 1.50 as 1.5 and trims comments); identifiers, strings and comment texts come from fixed alphabets",
		},
		Outside:   []string{"layouts outside the corpus/generator", "identifier, string and comment contents beyond the alphabets"},
		LevelText: "exhaustive exploration of the bounded layout space on the real lexer, parser and formatter (Program.Format, format.go, multiline.go) and the evaluator: token sequence of the output equals that of the input, the output is accepted, has the same tree (Program.String) and the same run trace",
		LevelNote: "trusts the token-sequence comparison in the harness; structural data, the solver is the enumerator",
		DesignRef: "DESIGN.md §6 C06",
		Technique: technique,
	})
	register(Check{
		ID: "C07", Title: "Formatting is canonical and idempotent", Level: "model_checking",
		Units: []Unit{fmtUnit(
			Harness{Fn: "ZZC06Corpus", Quick: p("PROP", 7), Thorough: p("PROP", 7), Expect: []string{"corpus-ok", "witness:end"}},
			Harness{Fn: "ZZC06Programs", Quick: p("PROP", 7), Thorough: p("PROP", 7), Expect: []string{"programs-ok", "witness:end"}},
			Harness{Fn: "ZZC06Docs", Quick: p("PROP", 7), Thorough: p("PROP", 7), Expect: []string{"docs-ok", "witness:end"}},
			Harness{Fn: "ZZC06Gen", Quick: p("PROP", 7, "FD", 1, "FL0", 1, "FL1", 1), Thorough: p("PROP", 7, "FD", 2, "FL0", 1, "FL1", 1), ThoroughBudget: 25 * time.Minute, Expect: []string{"gen-ok", "witness:end"}},
			Harness{Fn: "ZZC06GenFlat", Quick: p("PROP", 7, "FLAT", 3), Thorough: p("PROP", 7, "FLAT", 4), Expect: []string{"gen-ok", "witness:end"}},
			Harness{Fn: "ZZC07Seq", Quick: p("PROP", 7, "SEQ", 4), Thorough: p("PROP", 7, "SEQ", 6), Expect: []string{"seq-ok", "witness:end"}},
			Harness{Fn: "ZZC07Num", Quick: p("PROP", 7), Thorough: p("PROP", 7), Expect: []string{"num-ok", "witness:end"}},
			Harness{Fn: "ZZC07Str", Quick: p("PROP", 7, "S", 2), Thorough: p("PROP", 7, "S", 3), Expect: []string{"str-ok", "witness:end"}},
			Harness{Fn: "ZZC06Multi", Quick: p("PROP", 7, "ML", 2), Thorough: p("PROP", 7, "ML", 3), Expect: []string{"multi-ok", "witness:end"}},
			Harness{Fn: "ZZC06Groups", Quick: p("PROP", 7), Thorough: p("PROP", 7), Expect: []string{"groups-ok", "witness:end"}},
		), mainUnit([]string{"main/c18.go", "main/c18native.go", "main/c07m.go"},
			Harness{Fn: "ZZC07Check", Expect: []string{"check-ok", "witness:end"}},
			Harness{Fn: "ZZC07CheckFiles", Quick: p("FILES", 2), Thorough: p("FILES", 3), Expect: []string{"files-ok", "files-unformatted", "witness:end"}},
		)},
		Assumptions: []string{
			"ZZC07Str and ZZC06Multi as in C06, with the canonical-shape assertions", "same inputs as C06; `evy fmt --check` through main.format and fmtCmd.Run on the model file system"},
		Outside:   []string{"layouts outside the corpus/generator"},
		LevelText: "exhaustive exploration of the bounded layout space: fmt(fmt(p)) = fmt(p), whitespace variants of one program give one text, no trailing blanks, no two consecutive blank lines, exactly one final newline, indentation in multiples of four spaces; main.format(checkOnly) returns nil exactly for formatted input",
		LevelNote: "trusts the shape predicates in the harness; structural data, the solver is the enumerator",
		DesignRef: "DESIGN.md §6 C07",
		Technique: technique,
	})
	register(Check{
		ID: "C08", Title: "Parsing, formatting and running are deterministic", Level: "model_checking",
		Units: []Unit{evalUnit([]string{"evaluator/common.go", "evaluator/c08.go", "evaluator/c09.go", "evaluator/c02.go", "evaluator/c04.go", "evaluator/gen.go"},
			Harness{Fn: "ZZC08Orders", Expect: []string{"orders-ok", "witness:end", "maprange:permuted:2", "maprange:permuted:3"}, MaxInstr: 40_000_000},
			Harness{Fn: "ZZC08Repeat", Expect: []string{"repeat-ok", "repeat-rejected", "witness:end"}, MaxInstr: 40_000_000},
			Harness{Fn: "ZZC08Seed", Expect: []string{"seed-ok", "witness:end", "stub:rand.Int31n", "stub:rand.Float64"}},
			Harness{Fn: "ZZC08Corpus", Expect: []string{"corpus-ok", "witness:end"}, MaxInstr: 40_000_000},
		), mainUnit([]string{"main/c05m.go"},
			Harness{Fn: "ZZC08CLISeed", Expect: []string{"cliseed-ok", "witness:end"}},
		)},
		Assumptions: []string{
			"ZZC08Corpus: the ~150 program texts of the C09/C02/C04 harnesses under every map order; three programs for every map-building operation (repetition / deep copy, inside any, nested)",
			"the adversarial schedule is Go's map iteration order: every range over a Go map of up to four entries executed in evy code is a choice point and all orders are explored (larger maps — the built-in function table — are ranged in canonical order: their loops only copy into other maps; sites listed under reach_markers)",
			"the whole pipeline (parse, format, evaluate) runs under every order and is compared with a run under one fixed order; programs are biased to two or more entries wherever a map is ranged (unused variables per scope, map literals with side effects and mixed value types, font properties, handlers, map printing/equality/test)",
			"the parser is given one built-in global instead of three to bound the number of orders",
		},
		Outside:   []string{"separate OS processes, addresses, timing (nothing in the encoded code depends on them)", "the random source: a contract stub, not a function of the seed", "programs outside the list"},
		LevelText: "schedule exploration by bounded symbolic execution: parser.Parse (validateScope, parseMapLiteral, wrapAny, MapLiteral.infer, calledBuiltinFuncs), Program.Format, Evaluator.Eval (evalMapLiteral, mapVal.Equals, sameMap, parseFontProps, evalProgram) under every Go map iteration order, compared with a fixed-order run",
		LevelNote: "trusts the engine's deterministic map model with explicit choice points",
		DesignRef: "DESIGN.md §6 C08",
		Technique: technique,
	})
	register(Check{
		ID: "C02", Title: "Accepted programs never go wrong (type soundness)", Level: "model_checking",
		Units: []Unit{evalUnit([]string{"evaluator/common.go", "evaluator/c02.go", "evaluator/c04.go", "evaluator/c05.go", "evaluator/c08.go", "evaluator/c09.go"},
			Harness{Fn: "ZZC02Audit", Expect: []string{"audit-ok", "witness:end"}},
			Harness{Fn: "ZZC02Assert", Expect: []string{"assert-ok", "assert-panics", "witness:end"}},
			Harness{Fn: "ZZC05Returns", Quick: p("RD", 1, "RK", 3), Thorough: p("RD", 1, "RK", 3), Expect: []string{"returns-rejected", "returns-accepted", "witness:end"}},
			Harness{Fn: "ZZC02Builtins", Expect: []string{"builtin-rand", "builtin-print", "builtin-font", "builtin-poly", "witness:end"}, MaxInstr: 5_000_000},
			Harness{Fn: "ZZC02Primitives", Expect: []string{"repeat", "concat", "fromany", "zero", "witness:end"}},
			Harness{Fn: "ZZC02Programs", Expect: []string{"program-ok", "witness:end"}},
			Harness{Fn: "ZZC02Shadow", Expect: []string{"shadow-if", "shadow-while", "shadow-fornum", "shadow-formap", "witness:end"}},
			Harness{Fn: "ZZC02Index", Expect: []string{"index-ok", "index-panic", "witness:end"}},
		)},
		Assumptions: []string{
			"ZZC02Audit additionally stores untyped empty literals of nesting depth 1..4 in an any, an inferred variable and an array element and requires the complete concrete type (structure over any)",
			"unit layer: every entry of newBuiltins is called once with arguments of its declared parameter types: nums and bools unconstrained symbolic values, strings from {\"\", \"a\", \"añ✓\", \"%v %d %s\", \"12\"}, any-wrapped num/string/bool/[]num/{}num, arrays and maps of 0..2 elements, 0..3 variadic arguments; the platform is a recording stub, the random source a contract stub",
			"every Go-level panic on an explored path (nil dereference, failed type assertion, index/makeslice out of range, explicit panic) is reported by the engine",
			"memory exhaustion by legitimately huge data is outside; a Go makeslice panic is inside",
		},
		Outside:   []string{"sequences of built-in calls (state carried between calls) beyond the programs listed", "strings outside the class set", "programs beyond the listed ones for the typeof/static-type agreement (C04 checks typeof for every accepted assignment)", "shadowing: one block per program, 5 value types; index programs: strings {\"\", a, ñ, añ✓} and the arrays of their characters"},
		LevelText: "bounded symbolic execution of every built-in (builtin.go) and of evalBinaryArrayExpr/valueFromAny/zero with symbolic numbers and bools: no host panic, errors only from the documented taxonomy (ErrPanic, ExitError, ErrTest — never ErrInternal), results of the declared dynamic type, an any never wraps an any",
		LevelNote: "trusts the engine's implicit checks and cvc5; argument classes as listed",
		DesignRef: "DESIGN.md §6 C02",
		Technique: technique,
	})
}
