package main

import "time"

var evalCommon = []string{"evaluator/common.go"}

func init() {
	register(Check{
		ID: "C01", Title: "Expressions evaluate as the language definition prescribes", Level: "model_checking",
		Units: []Unit{evalUnit([]string{"evaluator/common.go", "evaluator/c01.go"},
			Harness{Fn: "ZZC01Expr", Quick: p("D", 1), Thorough: p("D", 2), ThoroughBudget: 25 * time.Minute, Expect: []string{"expr-ok", "witness:end"}, Cross: true},
			Harness{Fn: "ZZC01Pairs", Expect: []string{"pair", "expr-ok", "witness:end"}},
			Harness{Fn: "ZZC01Lists", Quick: p("N", 3), Thorough: p("N", 4), Expect: []string{"lists-ok", "witness:end"}},
		)},
		Assumptions: []string{
			"expression trees up to depth D over + - * / % unary-minus, < <= > >= == != on nums and strings, and/or/!, string +, index, calls of printing functions; numeric and bool leaves are unconstrained symbolic values, string leaves from {\"\", \"añ\", \"b\"}",
			"math.Mod is an uninterpreted function on both sides; FormatFloat results are opaque atoms compared by their argument terms",
			"the reference evaluation is written from docs/spec.md (precedence table, left-to-right associativity and evaluation, short-circuit and/or)",
			"ZZC01Lists explores every Go map iteration order (mapOrder=all) for map literal values",
		},
		Outside:   []string{"trees deeper than D", "digit generation of number printing (strconv.FormatFloat)", "array/map operators beyond literal evaluation order (C09, C12)"},
		LevelText: "bounded symbolic execution of lexer.Next, parser.Parse (Pratt parser: precedences, parseExpr, parseBinaryExpr, parseUnaryExpr, parseGroupedExpr, isAtExprEnd, WSS stack) and Evaluator.Eval (evalBinaryExpr, canShortCircuit, evalBinaryNum/String/BoolExpr, evalUnaryExpr, evalExprList, evalMapLiteral, evalFunccall, print/join) on every expression tree up to depth D, in minimal and full parenthesisation and spaced and tight layout, with symbolic leaf values, compared with a reference evaluation of the generator's tree (value, printed text, order of side effects)",
		LevelNote: "trusts the reference evaluator and the minimal-parenthesisation renderer in the harness, the engine and cvc5",
		DesignRef: "DESIGN.md §6 C01",
		Technique: technique,
	})
}
