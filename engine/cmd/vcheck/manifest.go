package main

import (
	"encoding/json"
	"fmt"
	"os"
	"path/filepath"
)

// notYet: properties without a registered check, with the reason.
var notApplicable = map[string]string{}

var allProps = []string{"C01", "C02", "C03", "C04", "C05", "C06", "C07", "C08", "C09", "C10", "C11", "C12", "C13", "C14", "C15", "C16", "C17", "C18", "C19", "C20"}

func cmdManifest() int {
	var cs []map[string]any
	have := map[string]bool{}
	isProp := map[string]bool{}
	for _, id := range allProps {
		isProp[id] = true
	}
	for _, c := range checks {
		if !isProp[c.ID] {
			continue
		}
		have[c.ID] = true
		cs = append(cs, map[string]any{
			"property_id":         c.ID,
			"quick_cmd":           "./bin/vcheck run " + c.ID + " --tier quick",
			"thorough_cmd":        "./bin/vcheck run " + c.ID + " --tier thorough",
			"evidence_file":       "/verif/evidence/" + c.ID + ".json",
			"replay_cmd_template": "./bin/vcheck replay {path}",
			"engine":              "symgo",
			"level_claimed": map[string]any{
				"category":   c.Level,
				"text":       c.LevelText,
				"design_ref": c.DesignRef,
			},
			"level_note": c.LevelNote,
			"technique":  c.Technique,
		})
	}
	na := []map[string]string{}
	for _, id := range allProps {
		if !have[id] {
			r := notApplicable[id]
			if r == "" {
				r = "no check registered"
			}
			na = append(na, map[string]string{"property_id": id, "reason": r})
		}
	}
	m := map[string]any{
		"version":   1,
		"setup_cmd": "cd /verif/engine && GOFLAGS=-mod=mod GOPROXY=off GOSUMDB=off GOTOOLCHAIN=local go build -o /verif/bin/vcheck ./cmd/vcheck",
		"hooks": map[string]any{
			"guard":            "verif",
			"enable":           "no source change in /repo: harness files (//go:build verif) are injected into the packages under test through go/packages Overlay (symbolic run) and go test -overlay -tags verif (native replay)",
			"baseline_off_cmd": baselineCmd(),
			"source_commits":   []string{},
			"add_only":         true,
		},
		"engines": []map[string]any{{
			"name": "symgo", "path": "/verif/engine",
			"serves_properties": func() []string {
				var s []string
				for _, c := range checks {
					if c.ID[0] == 'C' {
						s = append(s, c.ID)
					}
				}
				return s
			}(),
			"kind_free_text": "bounded symbolic executor for go/ssa (fork of x/tools ssa/interp with symbolic float64/int/bool scalars, rune-vector strings, replay forking) + cvc5/z3 over SMT-LIB2 pipes; SSA regenerated from /repo's working tree on every run",
		}},
		"checks":         cs,
		"not_applicable": na,
		"notes":          "exit 0 = held on everything explored; exit 1 + VIOLATION line = counterexample reproduced natively against /repo; exit 2 = engine error (never a verdict). KNOWN-FINDING lines come from /verif/known_findings.json.",
	}
	b, _ := json.MarshalIndent(m, "", " ")
	if err := os.WriteFile(filepath.Join(verifDir, "MANIFEST.json"), append(b, '\n'), 0o644); err != nil {
		fmt.Fprintln(os.Stderr, err)
		return 2
	}
	return 0
}

func baselineCmd() string {
	b, err := os.ReadFile("/root/.vp/BASELINE.json")
	if err != nil {
		return "cd /repo && go test -vet=off -count=1 ./... && cd learn && go test -vet=off -count=1 ./..."
	}
	var v struct {
		Cmd string `json:"cmd"`
	}
	json.Unmarshal(b, &v)
	return v.Cmd
}
