package main

func mainUnit(files []string, hs ...Harness) Unit {
	return Unit{PkgDir: "", PkgPath: "evylang.dev/evy", PkgName: "main", Files: files, Harnesses: hs}
}

func init() {
	register(Check{
		ID: "C18", Title: "evy fmt never damages a source file and --check tells the truth", Level: "model_checking",
		Units: []Unit{mainUnit([]string{"main/c18.go", "main/c18native.go", "main/c07m.go"},
			Harness{Fn: "ZZC18Write", Quick: p("K", 8), Thorough: p("K", 10), Expect: []string{"clean-run", "unparsable", "fault", "killed", "witness:end"}},
			Harness{Fn: "ZZC18Check", Expect: []string{"witness:end"}},
			Harness{Fn: "ZZC18Txtar", Quick: p("M", 2), Thorough: p("M", 3), Expect: []string{"txtar-unparsable", "txtar-check", "txtar-write", "witness:end"}},
			Harness{Fn: "ZZC07CheckFiles", Quick: p("FILES", 2), Thorough: p("FILES", 3), Expect: []string{"files-ok", "files-unformatted", "witness:end"}},
			Harness{Fn: "ZZC07Stdin", Expect: []string{"stdin-unparsable", "stdin-formatted", "stdin-checked", "witness:end"}},
		)},
		Assumptions: []string{
			"ZZC18Txtar: archives of 2..M .evy members of every content class, -w and -c; ZZC07Stdin",
			"ZZC07CheckFiles: evy fmt -c over 1..FILES files (plain and txtar) in every order",
			"model file system: a map path -> (bytes, mode); os.ReadFile/CreateTemp/Create/OpenFile/WriteFile/Stat/Chmod/Rename/Remove and (*os.File).Write/Close/Chmod/Sync/Stat are stubs bound to it; rename is atomic; a failing write leaves half of the data behind",
			"the k-th file-system call fails with ENOSPC/EIO/EACCES (single fault), or the process is killed after the k-th call; permission bits are a symbolic 9-bit value with the owner-read bit set",
			"'complete formatted text' = the output of main.format on the same bytes (formatter correctness is C06/C07)",
		},
		Outside:   []string{"power loss / missing fsync (the property is about process kill)", "kernel semantics beyond atomic rename", "native confirmation of fault/kill counterexamples: the replay runs the real evy binary under strace, injecting the failure or SIGKILL at every invocation (1..60) of every file-related system call, and checks the invariant after each run; a model fault with no native counterpart among those is reported as not reproduced (exit 2)"},
		LevelText: "fault enumeration by bounded symbolic execution of fmtCmd.Run/fmtEvyFile/fmtTxtarFile/format/writeAtomically on a model file system: every kill point and every single failing call among the first K file-system calls, all permission bits (solver-decided), five content classes, .evy and .txtar",
		LevelNote: "trusts the model file system (stubs listed in the evidence), the engine and cvc5",
		DesignRef: "DESIGN.md §6 C18",
		Technique: technique,
	})
}
