package main

import (
	"encoding/json"
	"fmt"
	"os"
	"path/filepath"
	"sort"
	"time"
)

func writeEvidence(chk *Check, tier string, seed int, reports []harnessReport, samples []any, funcs map[string]int64,
	srcs []string, nviol, nknown int, notes []string, wall time.Duration) {
	if len(chk.ID) != 3 || chk.ID[0] != 'C' {
		return // engine self-checks are not properties
	}
	if chk.Assumptions == nil {
		chk.Assumptions = []string{}
	}
	if chk.Outside == nil {
		chk.Outside = []string{}
	}
	if notes == nil {
		notes = []string{}
	}
	var paths, sym, queries, aq, unsat, sat, unk, trunc, unsup, unexpl, instr, completed, conc int64
	var solverS float64
	bounds := map[string]any{}
	stubs := map[string]int64{}
	for _, r := range reports {
		paths += r.Paths
		sym += r.SymPaths
		queries += r.Queries
		aq += r.AssertQ
		unsat += r.AssertUnsat
		sat += r.AssertSat
		unk += r.AssertUnk
		trunc += r.Truncated
		unsup += r.Unsupported
		unexpl += r.Unexplored
		instr += r.Instr
		completed += r.Completed
		conc += r.Concretised
		solverS += r.SolverS
		bounds[r.Harness] = r.Params
		for k, n := range r.Externals {
			stubs[k] += n
		}
	}
	type fc struct {
		Fn string `json:"fn"`
		N  int64  `json:"ssa_instructions_executed"`
	}
	var fl []fc
	for f, n := range funcs {
		fl = append(fl, fc{f, n})
	}
	sort.Slice(fl, func(i, j int) bool { return fl[i].N > fl[j].N })
	nfuncs := len(fl)
	if len(fl) > 60 {
		fl = fl[:60]
	}
	if len(samples) > 8 {
		samples = samples[:8]
	}
	if len(samples) == 0 {
		samples = []any{"no completed path with assertions (see harness reports)"}
	}
	rule := chk.Rule
	if rule == "" {
		rule = ruleDefault
	}
	cov := map[string]any{
		"evaluations":                   paths,
		"distinct_nontrivial":           sym,
		"rule":                          rule,
		"samples":                       samples,
		"exhaustive":                    unexpl == 0 && trunc == 0 && unsup == 0 && unk == 0,
		"states":                        paths,
		"transitions":                   instr,
		"traces_validated_against_impl": completed,
		"explanation":                   "bounded symbolic execution of the real Go code from go/ssa; every branch on a symbolic value and every assertion is an SMT query (cvc5, FP+BV); 'exhaustive' = all feasible paths inside the stated bounds explored with no truncation, no unsupported construct and no unknown verdict",
		"functions_encoded":             fl,
		"functions_encoded_count":       nfuncs,
		"bounds":                        bounds,
		"queries":                       map[string]any{"total": queries, "assertion": aq, "assert_unsat": unsat, "assert_sat": sat, "assert_unknown": unk},
		"solver_s":                      solverS,
		"solvers":                       []string{envOr("VERIF_SOLVER", "cvc5") + " (primary)", "z3-new (cross-check of unsat verdicts, thorough tier, where enabled)"},
		"truncated_paths":               trunc,
		"unsupported_paths":             unsup,
		"unexplored_prefixes":           unexpl,
		"concretised":                   conc,
		"stubs_and_externals":           stubs,
		"harnesses":                     reports,
		"outside_the_claim":             chk.Outside,
		"known_findings_hit":            nknown,
		"source_digest":                 digest(srcs),
		"source_files":                  len(srcs),
		"notes":                         notes,
	}
	ev := map[string]any{
		"property_id": chk.ID,
		"tier":        tier,
		"seed":        seed,
		"level":       chk.Level,
		"coverage":    cov,
		"assumptions": chk.Assumptions,
		"wall_s":      wall.Seconds(),
		"violations":  nviol,
	}
	if chk.Level == "translation_validation" {
		cov["programs"] = paths
		cov["disagreements_checked"] = sat
	}
	os.MkdirAll(filepath.Join(outDir, "evidence"), 0o755)
	b, _ := json.MarshalIndent(ev, "", " ")
	if err := os.WriteFile(filepath.Join(outDir, "evidence", chk.ID+".json"), b, 0o644); err != nil {
		fmt.Fprintln(os.Stderr, "evidence:", err)
	}
}
