package main

import "time"

// Harness: one symbolic harness function with its bounds per tier.
type Harness struct {
	Fn             string           `json:"fn"`
	Quick          map[string]int64 `json:"quick,omitempty"`
	Thorough       map[string]int64 `json:"thorough,omitempty"`
	QuickBudget    time.Duration    `json:"-"`
	ThoroughBudget time.Duration    `json:"-"`
	MaxInstr       int64            `json:"-"`
	Expect         []string         `json:"-"` // reach markers that must be reached (vacuity guard)
	Cross          bool             `json:"-"` // re-ask unsat verdicts to z3-new in the thorough tier
}

// Unit: a package under test with the harness files injected into it.
type Unit struct {
	ModDir    string    `json:"mod_dir"`  // relative to /repo ("" or "learn")
	PkgDir    string    `json:"pkg_dir"`  // relative to module dir
	PkgPath   string    `json:"pkg_path"` // import path
	PkgName   string    `json:"pkg_name"`
	Files     []string  `json:"files"` // relative to /verif/harness
	Harnesses []Harness `json:"harnesses,omitempty"`
}

type Check struct {
	ID          string
	Title       string
	Level       string
	Units       []Unit
	Assumptions []string
	Outside     []string
	Rule        string
	LevelText   string
	LevelNote   string
	DesignRef   string
	Technique   string
}

func p(kv ...any) map[string]int64 {
	m := map[string]int64{}
	for k := 0; k+1 < len(kv); k += 2 {
		m[kv[k].(string)] = int64(kv[k+1].(int))
	}
	return m
}

func evalUnit(files []string, hs ...Harness) Unit {
	return Unit{PkgDir: "pkg/evaluator", PkgPath: "evylang.dev/evy/pkg/evaluator", PkgName: "evaluator", Files: files, Harnesses: hs}
}

const technique = "solver-based bounded symbolic execution of the real Go code (go/ssa -> SMT-LIB2, cvc5; native replay of counterexamples)"

const ruleDefault = "evaluations = feasible execution paths of the harness explored by replay forking (every symbolic branch decided by the solver); a path is non-trivial when it ran to the end of the harness, at least one symbolic input was live and at least one assertion was decided on it; paths are distinct by construction (distinct decision vectors)"

var checks = []Check{
	{
		ID: "SMOKE", Title: "engine self-check", Level: "model_checking",
		Units: []Unit{evalUnit([]string{"evaluator/common.go", "evaluator/smoke.go"}, Harness{Fn: "ZZSmokePipeline"})},
	},
	{
		ID: "C11", Title: "Index and slice laws for arrays and strings", Level: "model_checking",
		Units: []Unit{evalUnit([]string{"evaluator/common.go", "evaluator/c11.go"},
			Harness{Fn: "ZZC11ArrayIndex", Quick: p("N", 4), Thorough: p("N", 8), Expect: []string{"index-ok", "index-err", "index-conv-undefined", "witness:end"}, Cross: true},
			Harness{Fn: "ZZC11ArraySlice", Quick: p("N", 3), Thorough: p("N", 6), Expect: []string{"slice-ok", "slice-err", "witness:end"}},
			Harness{Fn: "ZZC11StringIndex", Quick: p("N", 3), Thorough: p("N", 6), Expect: []string{"sindex-ok", "sindex-err", "witness:end"}},
			Harness{Fn: "ZZC11StringSlice", Quick: p("N", 2), Thorough: p("N", 4), Expect: []string{"sslice-ok", "sslice-err", "witness:end"}},
		)},
		Assumptions: []string{
			"float64->int conversion of NaN/Inf/|x|>=2^63 modelled as an unconstrained result (Go: implementation-defined); either error class accepted there",
			"array elements are distinct numVal cells created by the harness; string code points range over all Unicode scalar values",
		},
		Outside:   []string{"lengths above the stated N", "the parser-level rule that strings are not assignable by index (covered by C04/C05 harnesses)"},
		LevelText: "bounded symbolic execution of normalizeIndex/normalizeSliceIndices/arrayVal.Index,SetIndex,Slice/stringVal.Index,Slice from SSA: index and bounds are unconstrained float64 terms, string code points unconstrained Unicode scalars, all paths for lengths 0..N explored, each branch and assertion decided by cvc5 (FP+BV theories)",
		LevelNote: "trusts: the SSA interpreter fork and its SMT encoding of Go float64/int semantics (validated by native replay of every counterexample), cvc5; lengths bounded by N; float->int conversion outside int64 range modelled as unconstrained",
		DesignRef: "DESIGN.md §6 C11",
		Technique: technique,
	},
	{
		ID: "C12", Title: "Maps are insertion-ordered dictionaries", Level: "model_checking",
		Units: []Unit{evalUnit([]string{"evaluator/common.go", "evaluator/c12.go"},
			Harness{Fn: "ZZC12Step", Quick: p("K", 3), Thorough: p("K", 4), Expect: []string{"missing-key", "op-ok", "witness:end"}},
			Harness{Fn: "ZZC12Iter", Quick: p("K", 3), Thorough: p("K", 4), Expect: []string{"iter-ok", "witness:end"}},
			Harness{Fn: "ZZC12Equal", Quick: p("K", 2), Thorough: p("K", 3), Expect: []string{"witness:end"}},
		)},
		Assumptions: []string{
			"keys are never inspected by the map code, so a small key alphabet stands for all keys (data independence: stated, not proved)",
			"pre-states are built by a map literal of every ordered subset of the alphabet; values are unconstrained float64",
		},
		Outside:   []string{"key alphabets larger than K+1", "sequences of more than two operations are covered only through the inductive step (invariant + one operation)"},
		LevelText: "inductive step + iteration protocol by bounded symbolic execution: every ordered subset of the key alphabet as pre-state (representation invariant checked after the step), every operation x key x alias, values symbolic; executed through the real lexer, parser and evaluator (evalMapLiteral, evalAssignIndexExpr, evalAssignDotExpr, mapVal.SetKey/Delete/Get/Equals/String, newRange, mapRange.next, has/del/len) and compared with an abstract ordered dictionary",
		LevelNote: "trusts the abstract dictionary written from docs/spec.md, the engine and cvc5; key alphabet of K+1 keys",
		DesignRef: "DESIGN.md §6 C12",
		Technique: technique,
	},
}
