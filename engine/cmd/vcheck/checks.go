package main

import "time"

// Harness: one symbolic harness function with its bounds per tier.
type Harness struct {
	Fn             string           `json:"fn"`
	Quick          map[string]int64 `json:"quick,omitempty"`
	Thorough       map[string]int64 `json:"thorough,omitempty"`
	QuickBudget    time.Duration    `json:"-"`
	ThoroughBudget time.Duration    `json:"-"`
	MaxInstr       int64            `json:"-"`
	Expect         []string         `json:"-"` // reach markers that must be reached (vacuity guard)
	Cross          bool             `json:"-"` // re-ask unsat verdicts to z3-new in the thorough tier
	ThoroughOnly   bool             `json:"-"` // an additional parameter set explored in the thorough tier only
	Label          string           `json:"-"` // distinguishes several entries of one harness function in the evidence
}

// Unit: a package under test with the harness files injected into it.
type Unit struct {
	ModDir    string    `json:"mod_dir"`  // relative to /repo ("" or "learn")
	PkgDir    string    `json:"pkg_dir"`  // relative to module dir
	PkgPath   string    `json:"pkg_path"` // import path
	PkgName   string    `json:"pkg_name"`
	GenDocs   bool      `json:"gen_docs,omitempty"` // also inject the table of documentation examples generated from /repo/docs
	Files     []string  `json:"files"`              // relative to /verif/harness
	Harnesses []Harness `json:"harnesses,omitempty"`
}

type Check struct {
	ID          string
	Title       string
	Level       string
	Units       []Unit
	Assumptions []string
	Outside     []string
	Rule        string
	LevelText   string
	LevelNote   string
	DesignRef   string
	Technique   string
}

func p(kv ...any) map[string]int64 {
	m := map[string]int64{}
	for k := 0; k+1 < len(kv); k += 2 {
		m[kv[k].(string)] = int64(kv[k+1].(int))
	}
	return m
}

func evalUnit(files []string, hs ...Harness) Unit {
	return Unit{PkgDir: "pkg/evaluator", PkgPath: "evylang.dev/evy/pkg/evaluator", PkgName: "evaluator", Files: files, Harnesses: hs}
}

const technique = "solver-based bounded symbolic execution of the real Go code (go/ssa -> SMT-LIB2, cvc5; native replay of counterexamples)"

const ruleDefault = "evaluations = feasible execution paths of the harness explored by replay forking (every symbolic branch decided by the solver); a path is non-trivial when it ran to the end of the harness, at least one symbolic input was live and at least one assertion was decided on it; paths are distinct by construction (distinct decision vectors)"

var checks = []Check{
	{
		ID: "SMOKE", Title: "engine self-check", Level: "model_checking",
		Units: []Unit{evalUnit([]string{"evaluator/common.go", "evaluator/smoke.go"}, Harness{Fn: "ZZSmokePipeline"})},
	},
	{
		ID: "C11", Title: "Index and slice laws for arrays and strings", Level: "model_checking",
		Units: []Unit{evalUnit([]string{"evaluator/common.go", "evaluator/c11.go"},
			Harness{Fn: "ZZC11ArrayIndex", Quick: p("N", 4), Thorough: p("N", 8), Expect: []string{"index-ok", "index-err", "index-conv-undefined", "witness:end"}, Cross: true},
			Harness{Fn: "ZZC11ArraySlice", Quick: p("N", 3), Thorough: p("N", 6), Expect: []string{"slice-ok", "slice-err", "witness:end"}},
			Harness{Fn: "ZZC11StringIndex", Quick: p("N", 3), Thorough: p("N", 6), Expect: []string{"sindex-ok", "sindex-err", "witness:end"}},
			Harness{Fn: "ZZC11StringSlice", Quick: p("N", 2), Thorough: p("N", 4), Expect: []string{"sslice-ok", "sslice-err", "witness:end"}},
			Harness{Fn: "ZZC11Errmsg", Quick: p("HE", 2), Thorough: p("HE", 3), Expect: []string{"errmsg-ok", "witness:end"}},
		)},
		Assumptions: []string{
			"float64->int conversion of NaN/Inf/|x|>=2^63 modelled as an unconstrained result (Go: implementation-defined); either error class accepted there",
			"array elements are distinct numVal cells created by the harness; string code points range over all Unicode scalar values",
		},
		Outside:   []string{"lengths above the stated N", "the parser-level rule that strings are not assignable by index (covered by C04/C05 harnesses)"},
		LevelText: "bounded symbolic execution of normalizeIndex/normalizeSliceIndices/arrayVal.Index,SetIndex,Slice/stringVal.Index,Slice from SSA: index and bounds are unconstrained float64 terms, string code points unconstrained Unicode scalars, all paths for lengths 0..N explored, each branch and assertion decided by cvc5 (FP+BV theories)",
		LevelNote: "trusts: the SSA interpreter fork and its SMT encoding of Go float64/int semantics (validated by native replay of every counterexample), cvc5; lengths bounded by N; float->int conversion outside int64 range modelled as unconstrained",
		DesignRef: "DESIGN.md §6 C11",
		Technique: technique,
	},
	{
		ID: "C12", Title: "Maps are insertion-ordered dictionaries", Level: "model_checking",
		Units: []Unit{evalUnit([]string{"evaluator/common.go", "evaluator/c12.go"},
			Harness{Fn: "ZZC12Step", Quick: p("K", 3), Thorough: p("K", 4), Expect: []string{"missing-key", "op-ok", "witness:end"}},
			Harness{Fn: "ZZC12Iter", Quick: p("K", 3), Thorough: p("K", 4), Expect: []string{"iter-ok", "witness:end"}},
			Harness{Fn: "ZZC12Copies", Quick: p("K", 2), Thorough: p("K", 3), Expect: []string{"copies-ok", "witness:end"}},
			Harness{Fn: "ZZC12Equal", Quick: p("K", 2), Thorough: p("K", 3), Expect: []string{"witness:end"}},
			Harness{Fn: "ZZC12Literal", Expect: []string{"literal-ok", "witness:end"}},
		)},
		Assumptions: []string{
			"ZZC12Literal: a three-key map literal evaluated repeatedly (function called twice, loop body, element of an outer literal) with 11 operations on the first instance",
			"keys are never inspected by the map code, so a small key alphabet stands for all keys (data independence: stated, not proved)",
			"pre-states are built by a map literal of every ordered subset of the alphabet; values are unconstrained float64",
		},
		Outside:   []string{"key alphabets larger than K+1", "sequences of more than two operations are covered only through the inductive step (invariant + one operation)"},
		LevelText: "inductive step + iteration protocol by bounded symbolic execution: every ordered subset of the key alphabet as pre-state (representation invariant checked after the step), every operation x key x alias, values symbolic; executed through the real lexer, parser and evaluator (evalMapLiteral, evalAssignIndexExpr, evalAssignDotExpr, mapVal.SetKey/Delete/Get/Equals/String, newRange, mapRange.next, has/del/len) and compared with an abstract ordered dictionary",
		LevelNote: "trusts the abstract dictionary written from docs/spec.md, the engine and cvc5; key alphabet of K+1 keys",
		DesignRef: "DESIGN.md §6 C12",
		Technique: technique,
	},
	{
		ID: "C13", Title: "Built-in functions do what their documentation says", Level: "model_checking",
		Units: []Unit{evalUnit([]string{"evaluator/common.go", "evaluator/c13.go"},
			Harness{Fn: "ZZC13Math", Expect: []string{"math-min", "math-atan2", "math-round", "witness:end"}, Cross: true},
			Harness{Fn: "ZZC13Rand", Expect: []string{"rand-ok", "rand-err", "stub:rand.Int31n", "witness:end"}},
			Harness{Fn: "ZZC13Conv", Quick: p("H", 2), Thorough: p("H", 3), ThoroughBudget: 50 * time.Minute, Expect: []string{"conv-ok", "witness:end"}},
			Harness{Fn: "ZZC13Outcome", Expect: []string{"exit", "panic", "test1", "test2", "test3", "testbad", "test-msg", "witness:end"}},
			Harness{Fn: "ZZC13Hsl", Expect: []string{"hsl-ok", "hsl-err", "witness:end"}},
			Harness{Fn: "ZZC13Len", Quick: p("N", 3), Thorough: p("N", 6), Expect: []string{"witness:end"}},
			Harness{Fn: "ZZC13Strings", Expect: []string{"strings-ok", "witness:end"}},
		), func() Unit {
			u := evalUnit([]string{"evaluator/common.go", "evaluator/docs.go"},
				Harness{Fn: "ZZC13DocExamples", Expect: []string{"doc-example", "witness:end"}})
			u.GenDocs = true
			return u
		}(), lexUnit([]string{"lexer/c03.go"},
			Harness{Fn: "ZZC13IsIdent", Quick: p("NI", 2), Thorough: p("NI", 3), Expect: []string{"witness:end"}},
		)},
		Assumptions: []string{
			"ZZC13Strings: join, split, index, startswith, endswith, trim, replace, upper, lower, sprint, print over a 15-string alphabet (empty, separators at the edges and doubled, non-ASCII) against naive reference implementations over code points written from docs/builtins.md",
			"math.Mod/Pow/Log/Sin/Cos/Atan2 are uninterpreted functions (equal arguments give equal results); Abs/Floor/Ceil/Round/Sqrt/Min/Max are FP-theory terms with Go's NaN/±0/±Inf rules",
			"(*rand.Rand).Int31n(n) is a contract stub: host panic for n<=0, otherwise any r with 0<=r<n; Float64 any r in [0,1)",
			"strconv.ParseFloat/ParseBool/Quote and fmt verbs are the Go standard library's (native bridge on concrete strings)",
			"hsl: NaN components excluded (documentation silent)",
		},
		Outside:   []string{"digit generation of FormatFloat / Sprintf", "string built-ins on strings outside the class sets", "graphics built-ins (C19)"},
		LevelText: "bounded symbolic execution of the built-in table (newBuiltins, xyRetBuiltin/numRetBuiltin wrappers, randFunc, rand1Func, str2numFunc, str2boolFunc, globalErr, exitFunc, panicFunc, testFunc, same*, validateTestArgs, testMessage, hslFunc, lenFunc) and of evalFunccall/TestInfo.Report: every numeric argument an unconstrained float64, the random source an arbitrary in-contract value, strings from class sets; outcomes compared with the documentation",
		LevelNote: "trusts the documentation transcription in the harness, the FP models of math.*, the engine and cvc5",
		DesignRef: "DESIGN.md §6 C13",
		Technique: technique,
	},
	{
		ID: "C14", Title: "Running programs stay interruptible and stop cleanly", Level: "model_checking",
		Units: []Unit{evalUnit([]string{"evaluator/common.go", "evaluator/gen.go", "evaluator/gen2.go", "evaluator/c14.go"},
			Harness{Fn: "ZZC14Stop", Quick: p("K", 30), Thorough: p("K", 120), Expect: []string{"stopped", "not-stopped", "witness:end"}, MaxInstr: 3_000_000},
			Harness{Fn: "ZZC14Density", Expect: []string{"density-ok", "witness:end"}},
			Harness{Fn: "ZZC14Gen", Quick: p("KG", 16, "GD", 1), Thorough: p("KG", 30, "GD", 2), ThoroughBudget: 50 * time.Minute, Expect: []string{"gen-stopped", "gen-finished", "witness:end"}, MaxInstr: 3_000_000},
			Harness{Fn: "ZZC14Event", Quick: p("KE", 40), Thorough: p("KE", 40), Expect: []string{"ev-stopped", "ev-done", "witness:end"}},
		)},
		Assumptions: []string{
			"ZZC14Gen: generated programs with functions (gen2) stopped at a symbolic yield number up to KG, or never; the reference interpreter gives the uninterrupted trace and the number of calls",
			"ZZC14Density: 7 loop / recursion kinds x 5 body kinds (comment only, blank lines and comment, statement, call, nested block with a comment): n+d iterations give at least d more yields than n; four long loops with comment-only bodies in ZZC14Stop",
			"the platform is a recording stub; its yielder raises Evaluator.Stopped at a symbolic yield number k in [1,K]",
			"program family: endless while, numeric/array/string/map ranges, recursion, endless mutual recursion, tests before an endless loop, nested loops with break",
		},
		Outside:   []string{"pkg/wasm (sleepingYielder, stop export): tinygo-only build with wasm imports, not loadable by go/packages with the installed toolchain — the platform side of the mechanism is not encoded", "programs outside the family; k above K"},
		LevelText: "bounded symbolic execution of Evaluator.Run/Eval/eval/yield/evalWhile/evalFor/evalFunccall/HandleEvent/TestInfo.Report with the yield number at which the stop flag is raised as a symbolic integer: for every k the run ends with ErrStopped, no yield and no platform effect (except the test summary) follows, there is a yield between any two effects, and the effects are a prefix of a longer run's",
		LevelNote: "trusts the engine and cvc5; the wasm platform side is outside (see outside_the_claim)",
		DesignRef: "DESIGN.md §6 C14",
		Technique: technique,
	},
	{
		ID: "C15", Title: "Events run their handlers in order, isolated, on shared globals", Level: "model_checking",
		Units: []Unit{evalUnit([]string{"evaluator/common.go", "evaluator/gen.go", "evaluator/c15.go"},
			Harness{Fn: "ZZC15Events", Quick: p("E", 2, "H", 1), Thorough: p("E", 3, "H", 2), ThoroughBudget: 50 * time.Minute, Expect: []string{"events-ok", "witness:end"}},
			Harness{Fn: "ZZC15Scopes", Quick: p("NE", 2, "SD", 2, "SL", 2), Thorough: p("NE", 3, "SD", 2, "SL", 2), Expect: []string{"scopes-ok", "witness:end"}},
		)},
		Assumptions: []string{
			"the program declares globals named like every handler parameter; they must keep their values", "numeric payloads are unconstrained float64, string payloads from a 4-string alphabet incl. empty and non-ASCII", "handlers are delivered only events whose name has a handler (HandleEvent panics otherwise by contract, as pkg/wasm guards)"},
		Outside:   []string{"event sequences longer than E; more than H handlers per program; pkg/wasm event decoding"},
		LevelText: "bounded symbolic execution of parseEventHandler/addEventParamsToScope/evalProgram/HandleEvent/pushFuncScope/valueFromAny: every rotation of H handler kinds x every accepted signature form (full, empty, `_`) x every event sequence of length E, numeric payloads symbolic; the cumulative trace and globals are compared after every event with the procedure-call semantics",
		LevelNote: "trusts the expected-trace oracle in the harness, the engine and cvc5",
		DesignRef: "DESIGN.md §6 C15",
		Technique: technique,
	},
}

func register(c Check) { checks = append(checks, c) }
