package main

func init() {
	register(Check{
		ID: "C19", Title: "SVG output is well formed and shows exactly what was drawn", Level: "model_checking",
		Units: []Unit{
			{PkgDir: "pkg/cli/svg", PkgPath: "evylang.dev/evy/pkg/cli/svg", PkgName: "svg", Files: []string{"svg/c19.go"}, Harnesses: []Harness{
				{Fn: "ZZC19History", Quick: p("S", 2), Thorough: p("S", 3), Expect: []string{"history-ok", "witness:end"}, Cross: true},
				{Fn: "ZZC19Step", Quick: p("T", 2, "COLS", 2, "FULL", 0), Thorough: p("T", 2, "COLS", 4, "FULL", 1), Expect: []string{"step-ok", "witness:end"}},
				{Fn: "ZZC19Font", Expect: []string{"witness:end"}},
				{Fn: "ZZC19Gridn", Quick: p("U", 25), Thorough: p("U", 10), Expect: []string{"witness:end"}},
			}},
			evalUnit([]string{"evaluator/common.go", "evaluator/c13.go", "evaluator/c19e.go"},
				Harness{Fn: "ZZC19Args", Expect: []string{"gridn", "poly", "ellipse", "forward", "witness:end"}}),
			mainUnit([]string{"main/c18.go", "main/c18native.go", "main/c05m.go", "main/c19m.go"},
				Harness{Fn: "ZZC19CLI", Expect: []string{"cli-svg", "witness:end"}}),
		},
		Assumptions: []string{
			"every numeric argument is an unconstrained float64 (NaN, infinities, negative, zero); colour strings from {\"red\", \"\", an hsl() string, a markup-like string}",
			"flattening = resolve Group attributes into their children, unspecified attributes = the documented defaults (black, round, width 1)",
			"gridn: units >= U/10 Evy units for the termination and line-count claim; units <= 0 must be rejected by the evaluator; (0, U/10) is outside the claim",
		},
		Outside: []string{
			"XML serialisation (encoding/xml) and escaping: standard library behind the external boundary, not encoded",
			"histories longer than S commands from the initial state, and more than T commands after an arbitrary pen state (fill, stroke, width, cap, dash, cursor, with or without one pending shape); rotation transform text of ellipse; font properties beyond baseline/align/size",
		},
		LevelText: "bounded symbolic execution of GraphicsPlatform (Move, Line, Rect, Circle, Ellipse, Poly, Text, Clear, Width, Color, Stroke, Fill, Dash, Linecap, Font, Gridn, Push, nonDefaultAttr, transformX/Y, scale) over every command sequence of length S with symbolic numbers, compared shape by shape (geometry as FP terms, style as in effect when drawn) after flattening; evaluator-side argument validation of gridn/poly/ellipse for all numbers",
		LevelNote: "trusts the flattening function and the expected-geometry formulas (10*x, 1000-10*y) in the harness, the engine and cvc5",
		DesignRef: "DESIGN.md §6 C19",
		Technique: technique,
	})
}
