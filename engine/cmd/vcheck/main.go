// vcheck: solver-based checking of the real evy code.
//
//	vcheck run <ID> [--tier quick|thorough] [--only harness] [-v]
//	vcheck replay <file>
//	vcheck list
package main

import (
	"crypto/sha256"
	"encoding/json"
	"fmt"
	"os"
	"os/exec"
	"path/filepath"
	"regexp"
	"runtime"
	"sort"
	"strconv"
	"strings"
	"time"

	"golang.org/x/tools/go/packages"
	"golang.org/x/tools/go/ssa"
	"golang.org/x/tools/go/ssa/ssautil"

	"verif.local/engine/symgo"
)

var (
	verifDir = envOr("VERIF_DIR", "/verif")
	repoDir  = envOr("VERIF_REPO", "/repo")
	// outDir receives evidence/ and replays/; only the seeded-change matrix, which runs the checks
	// against scratch worktrees, points it away from /verif
	outDir = envOr("VERIF_OUT", verifDir)
)

func envOr(k, d string) string {
	if v := os.Getenv(k); v != "" {
		return v
	}
	return d
}

func main() {
	if len(os.Args) < 2 {
		fmt.Fprintln(os.Stderr, "usage: vcheck run <ID> [--tier quick|thorough] | replay <file> | list")
		os.Exit(2)
	}
	switch os.Args[1] {
	case "run":
		os.Exit(cmdRun(os.Args[2:]))
	case "replay":
		os.Exit(cmdReplay(os.Args[2:]))
	case "manifest":
		os.Exit(cmdManifest())
	case "list":
		for _, c := range checks {
			fmt.Println(c.ID, c.Title)
		}
	default:
		fmt.Fprintln(os.Stderr, "unknown command", os.Args[1])
		os.Exit(2)
	}
}

// ---- loading ----

type loaded struct {
	prog *ssa.Program
	pkg  *ssa.Package
	own  func(*ssa.Package) bool
	dur  time.Duration
	srcs []string
}

func apiSource(pkgName string) []byte {
	b, err := os.ReadFile(filepath.Join(verifDir, "harness", "api.go.tmpl"))
	if err != nil {
		panic(err)
	}
	return []byte(strings.Replace(string(b), "package PKGNAME", "package "+pkgName, 1))
}

// overlayFor returns virtual path -> real path of the harness files injected
// into the package under test, plus the generated api file (written to tmp).
func overlayFor(u *Unit, tmp string) (map[string]string, error) {
	ov := map[string]string{}
	apiPath := filepath.Join(tmp, "zz_verif_api_"+u.PkgName+".go")
	if err := os.WriteFile(apiPath, apiSource(u.PkgName), 0o644); err != nil {
		return nil, err
	}
	dir := filepath.Join(repoDir, u.ModDir, u.PkgDir)
	ov[filepath.Join(dir, "zz_verif_api.go")] = apiPath
	for _, f := range u.Files {
		real := filepath.Join(verifDir, "harness", f)
		ov[filepath.Join(dir, "zz_verif_"+strings.ReplaceAll(f, "/", "_"))] = real
	}
	if u.GenDocs {
		gp, _, err := genDocHarness(tmp, u.PkgName)
		if err != nil {
			return nil, err
		}
		ov[filepath.Join(dir, "zz_verif_docs_gen.go")] = gp
	}
	return ov, nil
}

func load(u *Unit, tmp string) (*loaded, error) {
	t0 := time.Now()
	ov, err := overlayFor(u, tmp)
	if err != nil {
		return nil, err
	}
	overlay := map[string][]byte{}
	var srcs []string
	for v, r := range ov {
		b, err := os.ReadFile(r)
		if err != nil {
			return nil, err
		}
		overlay[v] = b
	}
	cfg := &packages.Config{
		Mode:       packages.LoadAllSyntax,
		Dir:        filepath.Join(repoDir, u.ModDir),
		BuildFlags: []string{"-tags=verif", "-mod=mod"},
		Overlay:    overlay,
		Env:        append(os.Environ(), "GOFLAGS=-mod=mod", "GOPROXY=off", "GOSUMDB=off", "GOTOOLCHAIN=local"),
	}
	pkgs, err := packages.Load(cfg, u.PkgPath)
	if err != nil {
		return nil, err
	}
	nerr := 0
	packages.Visit(pkgs, nil, func(p *packages.Package) {
		for _, e := range p.Errors {
			fmt.Fprintln(os.Stderr, "load error:", e)
			nerr++
		}
	})
	if nerr > 0 {
		return nil, fmt.Errorf("%d package load errors (does /repo still compile with the harness?)", nerr)
	}
	own := func(path string) bool { return strings.HasPrefix(path, "evylang.dev/evy") }
	var initial []*packages.Package
	packages.Visit(pkgs, nil, func(p *packages.Package) {
		if own(p.PkgPath) {
			initial = append(initial, p)
			for _, f := range p.GoFiles {
				if strings.HasPrefix(f, repoDir) {
					srcs = append(srcs, f)
				}
			}
		}
	})
	prog, ssapkgs := ssautil.Packages(initial, ssa.InstantiateGenerics)
	prog.Build()
	var mainpkg *ssa.Package
	for _, p := range ssapkgs {
		if p != nil && p.Pkg.Path() == u.PkgPath {
			mainpkg = p
		}
	}
	if mainpkg == nil {
		return nil, fmt.Errorf("package %s not found", u.PkgPath)
	}
	sort.Strings(srcs)
	return &loaded{prog: prog, pkg: mainpkg, own: func(p *ssa.Package) bool { return own(p.Pkg.Path()) },
		dur: time.Since(t0), srcs: srcs}, nil
}

func digest(files []string) string {
	h := sha256.New()
	for _, f := range files {
		b, err := os.ReadFile(f)
		if err == nil {
			fmt.Fprintf(h, "%s %d\n", f, len(b))
			h.Write(b)
		}
	}
	return fmt.Sprintf("%x", h.Sum(nil))[:16]
}

// ---- run ----

type harnessReport struct {
	Unit         string           `json:"package"`
	Harness      string           `json:"harness"`
	Params       map[string]int64 `json:"bounds"`
	Paths        int64            `json:"paths"`
	Completed    int64            `json:"completed"`
	Aborted      int64            `json:"assume_pruned"`
	SymPaths     int64            `json:"paths_with_symbolic_assertions"`
	Truncated    int64            `json:"truncated"`
	Unsupported  int64            `json:"unsupported"`
	Unexplored   int64            `json:"unexplored"`
	Infeasible   int64            `json:"infeasible_paths_dropped"`
	Instr        int64            `json:"ssa_instructions_executed"`
	Branch       int64            `json:"branch_queries"`
	AssertQ      int64            `json:"assert_queries"`
	AssertUnsat  int64            `json:"assert_unsat"`
	AssertSat    int64            `json:"assert_sat"`
	AssertUnk    int64            `json:"assert_unknown"`
	AssertConc   int64            `json:"assert_concrete_true"`
	BranchUnk    int64            `json:"branch_unknown"`
	Implicit     int64            `json:"implicit_checks"`
	ConvUndef    int64            `json:"float_to_int_undefined_models"`
	Concretised  int64            `json:"concretised"`
	Cross        int64            `json:"cross_checked"`
	CrossUnk     int64            `json:"cross_unknown"`
	CrossDis     int64            `json:"cross_disagree"`
	Queries      int64            `json:"queries"`
	SolverS      float64          `json:"solver_s"`
	WallS        float64          `json:"wall_s"`
	Reached      map[string]int64 `json:"reach_markers"`
	UnsupWhy     map[string]int64 `json:"unsupported_reasons,omitempty"`
	Assertions   map[string]int64 `json:"assertions"`
	Externals    map[string]int64 `json:"stubs_and_externals"`
	Violations   int              `json:"violations"`
	MissingReach []string         `json:"missing_reach,omitempty"`
}

type finding struct {
	Property string            `json:"property"`
	Status   string            `json:"status"` // known | fixed
	Harness  string            `json:"harness"`
	Kind     string            `json:"kind,omitempty"`
	Msg      string            `json:"msg"`   // substring of the assertion / panic message
	Where    map[string]uint64 `json:"where"` // choice values that identify the failing case
	What     string            `json:"what"`
	Commit   string            `json:"commit,omitempty"`
}

func loadFindings() []finding {
	b, err := os.ReadFile(filepath.Join(verifDir, "known_findings.json"))
	if err != nil {
		return nil
	}
	var f struct {
		Findings []finding `json:"findings"`
	}
	if err := json.Unmarshal(b, &f); err != nil {
		fmt.Fprintln(os.Stderr, "known_findings.json:", err)
		os.Exit(2)
	}
	return f.Findings
}

func matchFinding(fs []finding, id, harness string, v *symgo.Violation) *finding {
	for k := range fs {
		f := &fs[k]
		if f.Status != "known" || f.Property != id || (f.Harness != harness && f.Harness != "*") {
			continue
		}
		if f.Kind != "" && f.Kind != v.Kind {
			continue
		}
		if !strings.Contains(v.Msg, f.Msg) {
			continue
		}
		ok := true
		for name, want := range f.Where {
			in, has := v.Inputs[name]
			if !has || in.Bits != want {
				ok = false
			}
		}
		if ok {
			return f
		}
	}
	return nil
}

func cmdRun(args []string) int {
	id := ""
	tier := envOr("VERIF_TIER", "quick")
	only := ""
	verbose := false
	noReplay := false
	workers := runtime.NumCPU()
	for k := 0; k < len(args); k++ {
		switch args[k] {
		case "--tier":
			k++
			tier = args[k]
		case "--only":
			k++
			only = args[k]
		case "-v":
			verbose = true
		case "--no-replay":
			noReplay = true
		case "--workers":
			k++
			workers, _ = strconv.Atoi(args[k])
		default:
			id = args[k]
		}
	}
	var chk *Check
	for k := range checks {
		if checks[k].ID == id {
			chk = &checks[k]
		}
	}
	if chk == nil {
		fmt.Fprintln(os.Stderr, "unknown check", id)
		return 2
	}
	seed, _ := strconv.Atoi(os.Getenv("VERIF_SEED"))
	t0 := time.Now()
	tmp, err := os.MkdirTemp("", "vcheck-"+id+"-")
	if err != nil {
		fmt.Fprintln(os.Stderr, err)
		return 2
	}
	defer os.RemoveAll(tmp)

	findings := loadFindings()
	var reports []harnessReport
	var samples []any
	var allSrcs []string
	funcs := map[string]int64{}
	exitCode := 0
	engineErr := false
	knownHit := map[string]bool{}
	var knownLines, violLines, notes []string
	total := symgo.Stats{}
	nviol := 0

	for ui := range chk.Units {
		u := &chk.Units[ui]
		ld, err := load(u, tmp)
		if err != nil {
			fmt.Fprintf(os.Stderr, "ENGINE-ERROR: loading %s: %v\n", u.PkgPath, err)
			return 2
		}
		allSrcs = append(allSrcs, ld.srcs...)
		for _, h := range u.Harnesses {
			if only != "" && h.Fn != only {
				continue
			}
			if h.ThoroughOnly && tier != "thorough" {
				continue
			}
			params := h.Quick
			budget := h.QuickBudget
			if tier == "thorough" {
				params = h.Thorough
				budget = h.ThoroughBudget
				if params == nil {
					params = h.Quick
				}
			}
			if budget == 0 {
				budget = 20 * time.Minute
			}
			if ov := os.Getenv("VERIF_PARAMS"); ov != "" { // debugging aid: NAME=int,NAME=int
				merged := map[string]int64{}
				for k, v := range params {
					merged[k] = v
				}
				for _, kv := range strings.Split(ov, ",") {
					if k, v, ok := strings.Cut(kv, "="); ok {
						n, _ := strconv.ParseInt(v, 10, 64)
						merged[k] = n
					}
				}
				params = merged
			}
			qt := 30000
			if tier == "thorough" {
				qt = 120000
			}
			cfg := &symgo.Config{
				Pkg: ld.pkg, Harness: h.Fn, Params: params, Workers: workers,
				Solver: symgo.SolverByName(envOr("VERIF_SOLVER", "cvc5"), qt), OwnPkg: ld.own,
				MaxInstr: h.MaxInstr, MaxViol: 40, Deadline: time.Now().Add(budget), Verbose: verbose,
			}
			if fx := os.Getenv("VERIF_FIX"); fx != "" { // debugging aid: name#k=int,... pins choices (one path family)
				cfg.FixedInputs = map[string]any{}
				for _, kv := range strings.Split(fx, ",") {
					if k, v, ok := strings.Cut(strings.TrimSpace(kv), "="); ok {
						n, _ := strconv.ParseUint(v, 10, 64)
						cfg.FixedInputs[k] = n
					}
				}
			}
			hfn := h.Fn
			cfg.IsKnown = func(v *symgo.Violation) bool { return matchFinding(findings, id, hfn, v) != nil }
			if tier == "thorough" && h.Cross {
				cs := symgo.SolverByName("z3-new", 20000)
				cfg.Cross = &cs
			}
			res := symgo.Explore(cfg)
			st := res.Stats
			repName := h.Fn
			if h.Label != "" {
				repName += "/" + h.Label
			}
			rep := harnessReport{Unit: u.PkgPath, Harness: repName, Params: params, Paths: st.Paths, Completed: st.Completed,
				Aborted: st.Aborted, SymPaths: st.SymPaths, Truncated: st.Truncated, Unsupported: st.Unsupported,
				Unexplored: st.Unexplored, Infeasible: st.InfeasibleDropped, Instr: st.Instr, Branch: st.BranchQueries, AssertQ: st.AssertQueries,
				AssertUnsat: st.AssertUnsat, AssertSat: st.AssertSat, AssertUnk: st.AssertUnknown, AssertConc: st.AssertConcrete,
				BranchUnk: st.BranchUnknown, Implicit: st.ImplicitChecks, ConvUndef: st.ConvUndef, Concretised: st.Concretised,
				Cross: st.CrossChecked, CrossUnk: st.CrossUnknown, CrossDis: st.CrossDisagree, Queries: st.Queries,
				SolverS: float64(st.SolverNs) / 1e9, WallS: res.Wall.Seconds(), Reached: res.Reached, UnsupWhy: res.Unsupported,
				Assertions: res.AssertMsgs, Externals: res.Externals}
			total.Add(&st)
			for f, n := range res.Funcs {
				funcs[f] += n
			}
			for _, s := range res.Samples {
				samples = append(samples, map[string]any{"harness": h.Fn, "decisions": s.Decisions, "model_inputs": s.Inputs,
					"pc_size": s.PCSize, "asserts": s.Asserts, "reached": s.Reached})
			}
			for _, n := range res.Notes {
				notes = append(notes, h.Fn+": "+n)
			}
			// vacuity: expected reach markers
			for _, m := range h.Expect {
				if res.Reached[m] == 0 {
					rep.MissingReach = append(rep.MissingReach, m)
				}
			}
			if len(rep.MissingReach) > 0 && len(res.Violations) == 0 && st.Unexplored == 0 {
				fmt.Printf("ENGINE-ERROR: %s %s: expected reach markers not reached: %v\n", id, h.Fn, rep.MissingReach)
				engineErr = true
			}
			if st.Unsupported > 0 {
				fmt.Printf("INCONCLUSIVE: %s %s: %d paths left the modelled fragment: %v\n", id, h.Fn, st.Unsupported, keys(res.Unsupported))
			}
			if st.Unexplored > 0 {
				fmt.Printf("REDUCED-BOUND: %s %s: %d pending prefixes unexplored when the budget ended\n", id, h.Fn, st.Unexplored)
			}
			// violations
			for vi := range res.Violations {
				v := &res.Violations[vi]
				if v.Kind == "undecided" {
					fmt.Printf("UNDECIDED: %s %s: %s\n", id, h.Fn, v.Msg)
					continue
				}
				if f := matchFinding(findings, id, h.Fn, v); f != nil {
					key := f.Harness + "|" + f.Msg + "|" + fmt.Sprint(f.Where)
					if !knownHit[key] {
						knownHit[key] = true
						knownLines = append(knownLines, fmt.Sprintf("KNOWN-FINDING: property=%s %s", id, f.What))
					}
					continue
				}
				rep.Violations++
				nviol++
				fmt.Printf("  counterexample: %s %s: %s [%s] inputs=%s\n", h.Fn, v.Kind, v.Msg, v.Verdict, fmtInputs(v.Inputs))
				if nviol > 6 {
					continue // enough replays; still counted
				}
				rp := writeReplay(id, u, &h, params, v)
				if noReplay {
					violLines = append(violLines, fmt.Sprintf("UNREPLAYED property=%s replay=%s (%s: %s)", id, rp, v.Kind, v.Msg))
					continue
				}
				ok, out := nativeReplay(rp)
				if ok {
					violLines = append(violLines, fmt.Sprintf("VIOLATION property=%s replay=%s", id, rp))
					exitCode = 1
				} else {
					fmt.Printf("ENGINE-ERROR: %s %s: counterexample did not reproduce natively (%s: %s) replay=%s\n%s\n", id, h.Fn, v.Kind, v.Msg, rp, tail(out, 15))
					engineErr = true
				}
			}
			reports = append(reports, rep)
			fmt.Printf("%s %-28s paths=%d completed=%d sym=%d asserts(unsat=%d sat=%d unk=%d conc=%d) trunc=%d unsup=%d queries=%d solver=%.1fs wall=%.1fs\n",
				id, h.Fn, st.Paths, st.Completed, st.SymPaths, st.AssertUnsat, st.AssertSat, st.AssertUnknown, st.AssertConcrete,
				st.Truncated, st.Unsupported, st.Queries, float64(st.SolverNs)/1e9, res.Wall.Seconds())
		}
	}
	for _, l := range knownLines {
		fmt.Println(l)
	}
	for _, l := range violLines {
		fmt.Println(l)
	}
	if only == "" && os.Getenv("VERIF_FIX") == "" && os.Getenv("VERIF_PARAMS") == "" {
		writeEvidence(chk, tier, seed, reports, samples, funcs, allSrcs, nviol, len(knownLines), notes, time.Since(t0))
	} else {
		fmt.Println("(partial debugging run: evidence file not rewritten)")
	}
	if exitCode == 1 {
		return 1
	}
	if engineErr {
		return 2
	}
	return 0
}

func keys(m map[string]int64) []string {
	var ks []string
	for k := range m {
		ks = append(ks, k)
	}
	sort.Strings(ks)
	return ks
}

func tail(s string, n int) string {
	ls := strings.Split(strings.TrimSpace(s), "\n")
	if len(ls) > n {
		ls = ls[len(ls)-n:]
	}
	return "    | " + strings.Join(ls, "\n    | ")
}

func fmtInputs(in map[string]symgo.InputVal) string {
	var ks []string
	for k := range in {
		ks = append(ks, k)
	}
	sort.Strings(ks)
	var sb strings.Builder
	for _, k := range ks {
		fmt.Fprintf(&sb, "%s=%s ", k, in[k].Text)
	}
	return strings.TrimSpace(sb.String())
}

// ---- replay ----

type replayFile struct {
	Property string                    `json:"property"`
	Unit     Unit                      `json:"unit"`
	Harness  string                    `json:"harness"`
	Params   map[string]int64          `json:"params"`
	Kind     string                    `json:"kind"`
	Msg      string                    `json:"msg"`
	Verdict  string                    `json:"verdict"`
	Inputs   map[string]symgo.InputVal `json:"inputs"`
	Timeout  int                       `json:"timeout_s"`
}

func writeReplay(id string, u *Unit, h *Harness, params map[string]int64, v *symgo.Violation) string {
	dir := filepath.Join(outDir, "replays")
	os.MkdirAll(dir, 0o755)
	uu := *u
	uu.Harnesses = nil
	rf := replayFile{Property: id, Unit: uu, Harness: h.Fn, Params: params, Kind: v.Kind, Msg: v.Msg, Verdict: v.Verdict,
		Inputs: v.Inputs, Timeout: 120}
	b, _ := json.MarshalIndent(rf, "", " ")
	sum := sha256.Sum256(b)
	p := filepath.Join(dir, fmt.Sprintf("%s-%s-%x.json", id, h.Fn, sum[:4]))
	os.WriteFile(p, b, 0o644)
	return p
}

var panicRe = regexp.MustCompile(`(?m)^(panic: |fatal error: |--- FAIL|\[signal )`)

// nativeReplay builds the harness natively against /repo's working tree and
// re-evaluates it with the solver's assignment. Returns true when the
// violation reproduces on the real compiled code.
func nativeReplay(path string) (bool, string) {
	b, err := os.ReadFile(path)
	if err != nil {
		return false, err.Error()
	}
	var rf replayFile
	if err := json.Unmarshal(b, &rf); err != nil {
		return false, err.Error()
	}
	tmp, err := os.MkdirTemp("", "vreplay-")
	if err != nil {
		return false, err.Error()
	}
	defer os.RemoveAll(tmp)
	u := &rf.Unit
	ov, err := overlayFor(u, tmp)
	if err != nil {
		return false, err.Error()
	}
	dir := filepath.Join(repoDir, u.ModDir, u.PkgDir)
	testSrc := fmt.Sprintf("//go:build verif\n\npackage %s\n\nimport \"testing\"\n\nfunc TestZZReplay(t *testing.T) {\n\tzzOcc = map[string]int{}\n\tzzViolations = nil\n\tdefer func() {\n\t\tif r := recover(); r != nil {\n\t\t\tif _, ok := r.(zzAssumeFailed); ok {\n\t\t\t\treturn\n\t\t\t}\n\t\t\tpanic(r)\n\t\t}\n\t}()\n\t%s()\n\tif len(zzViolations) > 0 {\n\t\tt.Fail()\n\t}\n}\n", u.PkgName, rf.Harness)
	testPath := filepath.Join(tmp, "zz_verif_replay_test.go")
	os.WriteFile(testPath, []byte(testSrc), 0o644)
	ov[filepath.Join(dir, "zz_verif_replay_test.go")] = testPath
	ovb, _ := json.Marshal(map[string]any{"Replace": ov})
	ovPath := filepath.Join(tmp, "overlay.json")
	os.WriteFile(ovPath, ovb, 0o644)
	to := rf.Timeout
	if to == 0 {
		to = 120
	}
	cmd := exec.Command("go", "test", "-tags", "verif", "-mod=mod", "-vet=off", "-count="+replayCount(u), "-overlay", ovPath,
		"-run", "^TestZZReplay$", "-timeout", fmt.Sprintf("%ds", to), "./"+u.PkgDir)
	if u.PkgDir == "" || u.PkgDir == "." {
		cmd.Args[len(cmd.Args)-1] = "."
	}
	cmd.Dir = filepath.Join(repoDir, u.ModDir)
	abs, _ := filepath.Abs(path)
	evyBin := ""
	if u.PkgName == "main" {
		// the real binary for syscall-level fault / kill injection
		evyBin = filepath.Join(tmp, "evy-under-test")
		b := exec.Command("go", "build", "-mod=mod", "-o", evyBin, ".")
		b.Dir = repoDir
		b.Env = append(os.Environ(), "GOFLAGS=-mod=mod", "GOPROXY=off", "GOSUMDB=off", "GOTOOLCHAIN=local")
		if out, err := b.CombinedOutput(); err != nil {
			return false, "cannot build evy: " + string(out)
		}
	}
	cmd.Env = append(os.Environ(), "VERIF_REPLAY="+abs, "VERIF_EVY_BIN="+evyBin, "GOFLAGS=-mod=mod", "GOPROXY=off", "GOSUMDB=off", "GOTOOLCHAIN=local")
	out, _ := cmd.CombinedOutput()
	so := string(out)
	switch rf.Kind {
	case "hang":
		return strings.Contains(so, "test timed out") || strings.Contains(so, "out of memory") || strings.Contains(so, "stack overflow") || strings.Contains(so, "ZZVIOLATION"), so
	case "panic":
		return strings.Contains(so, "panic: ") || strings.Contains(so, "fatal error: ") || strings.Contains(so, "ZZVIOLATION"), so
	default:
		if strings.Contains(so, "ZZASSUME-FAILED") {
			return false, so
		}
		return strings.Contains(so, "ZZVIOLATION") || strings.Contains(so, "panic: ") || strings.Contains(so, "fatal error: ") || strings.Contains(so, "test timed out"), so
	}
}

func cmdReplay(args []string) int {
	if len(args) < 1 {
		fmt.Fprintln(os.Stderr, "usage: vcheck replay <file>")
		return 2
	}
	ok, out := nativeReplay(args[0])
	fmt.Println(out)
	if ok {
		fmt.Println("REPRODUCED")
		return 1
	}
	fmt.Println("NOT-REPRODUCED")
	return 0
}

func replayCount(u *Unit) string {
	if u.PkgName == "main" {
		return "1" // CLI replays may enumerate system calls; once is enough
	}
	return "8"
}
