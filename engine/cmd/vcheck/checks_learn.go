package main

func init() {
	register(Check{
		ID: "C20", Title: "Sealed answers round-trip and answer verification is exact", Level: "model_checking",
		Units: []Unit{{ModDir: "learn", PkgDir: "pkg/learn", PkgPath: "evylang.dev/evy/learn/pkg/learn", PkgName: "learn", Files: []string{"learn/c20.go"}, Harnesses: []Harness{
			{Fn: "ZZC20Envelope", Quick: p("L", 6), Thorough: p("L", 12), Expect: []string{"roundtrip", "otherkey", "corrupt-accepted", "corrupt-rejected", "truncated", "garbage", "spliced", "stub:rsa.DecryptOAEP", "stub:gcm.Open", "witness:end"}},
			{Fn: "ZZC20Seal", Expect: []string{"unsealed", "wrongkey", "getanswer", "witness:end"}},
			{Fn: "ZZC20Text", Expect: []string{"text-ok", "text-rejects", "witness:end"}},
			{Fn: "ZZC20Verify", Quick: p("N", 3), Thorough: p("N", 5), Expect: []string{"verify-ok", "verify-rejects", "witness:end"}},
		}}},
		Assumptions: []string{
			"ZZC20Text: 4 question outputs x 14 answer texts; ZZC20Seal over the three answer types with non-canonical choice texts",
			"ideal primitives: rsa.EncryptOAEP/DecryptOAEP, aes.NewCipher, cipher.NewGCM, gcm.Seal/Open, rand.Reader, x509 key parsing are stubs; decryption returns the message iff ciphertext bytes and key are exactly those of the matching encryption, otherwise an error (the authenticated-encryption / OAEP contract)",
			"the RSA part has L bytes in the model (real keys: 128..512); the envelope code never depends on L except through the 16-bit length prefix",
			"renderers are stubs returning fixed outputs (runEvy is not executed); a choice 'matches' iff its output string equals the question's",
		},
		Outside:   []string{"the cryptographic round trip itself (crypto/rsa, crypto/aes, GCM, key generation): big-number and table-driven code beyond an SMT encoding — replaced by the ideal contract, so 'all key pairs / all texts' is claimed only for the envelope and state logic", "renderer.runEvy outputs", "text-match questions"},
		LevelText: "bounded symbolic execution of hybridEncrypt/hybridDecrypt (corruption position and byte value, truncation length, arbitrary short inputs as symbolic bytes), Encrypt/Decrypt, questionFrontmatter.Seal/Unseal/getAnswer and QuestionModel.Verify/getVerifiedAnswer/verifyMatch/verifyChoiceMatch/NewAnswer/correctAnswerIndices over every subset of marked letters (including one beyond the choices) and every assignment of matching outputs for up to N choices",
		LevelNote: "trusts the ideal-primitive stubs, the engine and cvc5",
		DesignRef: "DESIGN.md §6 C20",
		Technique: technique,
	})
}
