package symgo

// Symbolic indices, slice bounds and sizes (case split over the concrete
// length), deterministic / adversarial map iteration, and rune-vector
// strings (strings of concrete length whose code points are symbolic).

import (
	"fmt"
	"go/types"
	"sort"
	"unicode/utf8"
)

const maxSplitSize = 16 // symbolic sizes 0..12 are enumerated; larger ones must be excluded by the harness

const maxPermutedMap = 4 // larger maps are ranged in canonical order (stated bound)

const maxAlloc = 1 << 24 // elements; larger allocations are treated like Go's makeslice panic / OOM

func rtErr(e *explorer, msg string) targetPanic {
	return targetPanic{iface{e.i.runtimeErrorString, msg}}
}

// concreteIndex returns a concrete index for x[idx] with len n, forking over
// all feasible values and raising the Go bounds panic on the paths where idx
// is out of range.
func (e *explorer) concreteIndex(idx value, n int) int {
	si, ok := idx.(symI)
	if !ok {
		i := asInt64(idx)
		if i < 0 || i >= int64(n) {
			panic(rtErr(e, fmt.Sprintf("index out of range [%d] with length %d", i, n)))
		}
		return int(i)
	}
	e.stats.ImplicitChecks++
	bits := kindBits(si.k)
	xt := e.abbrev(si.t, bvsort(bits))
	var inr string
	if kindSigned(si.k) {
		inr = "(and (bvsle " + bvlit(0, bits) + " " + xt + ") (bvslt " + xt + " " + bvlit(uint64(n), bits) + "))"
	} else {
		inr = "(bvult " + xt + " " + bvlit(uint64(n), bits) + ")"
	}
	if n == 0 || !e.decide(inr, "bounds") {
		if n == 0 {
			// always out of range
		}
		panic(rtErr(e, fmt.Sprintf("index out of range [symbolic] with length %d", n)))
	}
	return int(e.splitInt(symI{xt, si.k}, 0, int64(n-1), "index"))
}

// concreteSize resolves a symbolic size (make len/cap): negative or huge
// values take the panic path in the caller; small values are enumerated.
func (e *explorer) concreteSize(v value, what string) int64 {
	si, ok := v.(symI)
	if !ok {
		return asInt64(v)
	}
	e.stats.ImplicitChecks++
	bits := kindBits(si.k)
	xt := e.abbrev(si.t, bvsort(bits))
	small := "(and (bvsle " + bvlit(0, bits) + " " + xt + ") (bvsle " + xt + " " + bvlit(maxSplitSize, bits) + "))"
	if e.decide(small, what) {
		return e.splitInt(symI{xt, si.k}, 0, maxSplitSize, what)
	}
	if e.decide("(bvslt "+xt+" "+bvlit(0, bits)+")", what) {
		return -1
	}
	// larger: is it huge (panic) or merely large?
	if e.decide("(bvsgt "+xt+" "+bvlit(maxAlloc, bits)+")", what) {
		return maxAlloc + 1
	}
	panic(unsupported("symbolic %s between %d and %d", what, maxSplitSize+1, maxAlloc))
}

func symSlice(e *explorer, x, lo, hi, max value) value {
	var Len, Cap int
	switch x := x.(type) {
	case string:
		Len, Cap = len(x), len(x)
	case []value:
		Len, Cap = len(x), cap(x)
	case *value:
		a := (*x).(array)
		Len, Cap = len(a), cap(a)
	case symStr:
		panic(unsupported("byte-slicing a rune-vector string"))
	}
	res := func(v value, def int) int {
		if v == nil {
			return def
		}
		si, ok := v.(symI)
		if !ok {
			return int(asInt64(v))
		}
		e.stats.ImplicitChecks++
		bits := kindBits(si.k)
		xt := e.abbrev(si.t, bvsort(bits))
		inr := "(and (bvsle " + bvlit(0, bits) + " " + xt + ") (bvsle " + xt + " " + bvlit(uint64(Cap), bits) + "))"
		if !e.decide(inr, "slicebounds") {
			panic(rtErr(e, "slice bounds out of range [symbolic]"))
		}
		return int(e.splitInt(symI{xt, si.k}, 0, int64(Cap), "slicebound"))
	}
	l := res(lo, 0)
	h := res(hi, Len)
	if max == nil {
		return slice(e, x, l, h, nil)
	}
	m := res(max, Cap)
	return slice(e, x, l, h, m)
}

// ---- deterministic map iteration ----

type detMapIter struct {
	e    *explorer
	m    map[value]value
	h    *hashmap
	keys []value
	all  bool
}

func keyLess(a, b value) bool {
	switch a := a.(type) {
	case string:
		if bs, ok := b.(string); ok {
			return a < bs
		}
	case int:
		if bi, ok := b.(int); ok {
			return a < bi
		}
	}
	return toString(a) < toString(b)
}

func newDetMapIter(e *explorer, m map[value]value, h *hashmap) iter {
	it := &detMapIter{e: e, m: m, h: h}
	if m != nil {
		for k := range m {
			it.keys = append(it.keys, k)
		}
	} else if h != nil {
		for _, ent := range h.entries() {
			for ; ent != nil; ent = ent.next {
				it.keys = append(it.keys, ent.key)
			}
		}
	}
	sort.SliceStable(it.keys, func(i, j int) bool { return keyLess(it.keys[i], it.keys[j]) })
	it.all = e != nil && e.mapOrder && len(it.keys) <= maxPermutedMap
	if e != nil && e.mapOrder && len(it.keys) > 1 {
		if it.all {
			e.reach(fmt.Sprintf("maprange:permuted:%d", len(it.keys)))
		} else {
			e.reach("maprange:canonical-order(size>4)")
		}
	}
	return it
}

func (it *detMapIter) get(k value) (value, bool) {
	if it.m != nil {
		v, ok := it.m[k]
		return v, ok
	}
	if it.h != nil {
		v := it.h.lookup(k.(hashable))
		return v, v != nil
	}
	return nil, false
}

func (it *detMapIter) next() tuple {
	for len(it.keys) > 0 {
		// drop keys deleted since the iteration began
		live := it.keys[:0]
		for _, k := range it.keys {
			if _, ok := it.get(k); ok {
				live = append(live, k)
			}
		}
		it.keys = live
		if len(it.keys) == 0 {
			break
		}
		pick := 0
		if it.all && len(it.keys) > 1 {
			pick = it.e.choose(len(it.keys), nil, "maporder")
		}
		k := it.keys[pick]
		it.keys = append(it.keys[:pick:pick], it.keys[pick+1:]...)
		v, _ := it.get(k)
		return tuple{true, k, v}
	}
	return tuple{false, nil, nil}
}

// ---- rune-vector strings ----

// symStr is a string of concrete length in code points whose code points
// may be symbolic (symI of kind Int32, constrained to Unicode scalars by
// their creator).
type symStr struct{ r []value }

func runesOf(s string) []value {
	var out []value
	for _, r := range s {
		out = append(out, r)
	}
	return out
}

func (e *explorer) symRuneString(rs []value) value {
	anySym := false
	for _, r := range rs {
		if isSym(r) {
			anySym = true
		}
	}
	if !anySym {
		b := make([]rune, len(rs))
		for k, r := range rs {
			b[k] = r.(rune)
		}
		return string(b)
	}
	return symStr{append([]value{}, rs...)}
}

func asSymStr(v value) (symStr, bool) {
	switch v := v.(type) {
	case symStr:
		return v, true
	case string:
		if hasAtom(v) {
			panic(unsupported("mixing atoms and rune-vector strings"))
		}
		return symStr{runesOf(v)}, true
	}
	return symStr{}, false
}

func runeTerm(r value) string {
	switch r := r.(type) {
	case symI:
		return r.t
	case rune:
		return bvlit(uint64(uint32(r)), 32)
	}
	panic(unsupported("runeTerm %T", r))
}

func (e *explorer) symStrEqRunes(a, b symStr) value {
	if len(a.r) != len(b.r) {
		return false
	}
	c := "true"
	for k := range a.r {
		x, y := a.r[k], b.r[k]
		if !isSym(x) && !isSym(y) {
			if x.(rune) != y.(rune) {
				return false
			}
			continue
		}
		c = sAnd(c, "(= "+runeTerm(x)+" "+runeTerm(y)+")")
	}
	return mkB(c)
}

// utf8Width term (as 64-bit int) of a rune
func widthTerm(r value) string {
	if c, ok := r.(rune); ok {
		return bvlit(uint64(utf8.RuneLen(c)), 64)
	}
	t := runeTerm(r)
	return "(ite (bvult " + t + " " + bvlit(0x80, 32) + ") " + bvlit(1, 64) +
		" (ite (bvult " + t + " " + bvlit(0x800, 32) + ") " + bvlit(2, 64) +
		" (ite (bvult " + t + " " + bvlit(0x10000, 32) + ") " + bvlit(3, 64) + " " + bvlit(4, 64) + ")))"
}

func (e *explorer) symStrLen(s symStr) value {
	t := bvlit(0, 64)
	for _, r := range s.r {
		t = e.abbrev("(bvadd "+t+" "+widthTerm(r)+")", bvsort(64))
	}
	return symI{t, types.Int}
}

type symStrIter struct {
	e   *explorer
	s   symStr
	k   int
	off string
}

func (it *symStrIter) next() tuple {
	if it.k >= len(it.s.r) {
		return tuple{false, nil, nil}
	}
	r := it.s.r[it.k]
	idx := value(symI{it.off, types.Int})
	it.off = it.e.abbrev("(bvadd "+it.off+" "+widthTerm(r)+")", bvsort(64))
	it.k++
	return tuple{true, idx, r}
}

// symMapLookup: map[string]T lookup with a rune-vector key: fork over the
// concrete keys with the same number of code points, plus "absent".
func (e *explorer) symMapLookup(m map[value]value, key symStr) (value, bool) {
	var cands []value
	for k := range m {
		if ks, ok := k.(string); ok && utf8.RuneCountInString(ks) == len(key.r) {
			cands = append(cands, k)
		}
	}
	sort.SliceStable(cands, func(i, j int) bool { return keyLess(cands[i], cands[j]) })
	conds := make([]string, 0, len(cands)+1)
	none := "true"
	for _, c := range cands {
		eq := e.symStrEqRunes(key, symStr{runesOf(c.(string))})
		t := toB(eq)
		conds = append(conds, t)
		none = sAnd(none, sNot(t))
	}
	conds = append(conds, none)
	d := e.choose(len(conds), conds, "mapkey")
	if d == len(cands) {
		return nil, false
	}
	return m[cands[d]], true
}
