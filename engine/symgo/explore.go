package symgo

// Path exploration by replay forking: a path is a vector of decisions; each
// path re-executes the harness from its first instruction, following the
// recorded prefix and asking the solver only at the first new decision.

import (
	"fmt"
	"go/types"
	"math"
	"os"
	"runtime/debug"
	"sort"
	"strings"
	"sync"
	"sync/atomic"
	"time"

	"golang.org/x/tools/go/ssa"
)

// ---- engine-control panics (never visible to the target program) ----

type pathAbort struct{ why string }       // assume failed / infeasible: path ends silently
type budgetExceeded struct{ what string } // instruction / depth budget: path truncated
type engineUnsupported struct{ msg string }
type pathExit struct{ code int } // os.Exit stub

func unsupported(format string, args ...any) engineUnsupported {
	return engineUnsupported{fmt.Sprintf(format, args...)}
}

func isEngineControl(p any) bool {
	switch p.(type) {
	case pathAbort, budgetExceeded, engineUnsupported, pathExit:
		return true
	}
	return false
}

// maxDecisions bounds the symbolic decisions on one path (a loop whose trip
// count is symbolic and unbounded ends as a truncated path / suspected hang).
const maxDecisions = 4000

// ---- configuration and results ----

type Config struct {
	Pkg         *ssa.Package
	Harness     string
	Params      map[string]int64
	Workers     int
	Solver      SolverSpec
	Cross       *SolverSpec // optional cross-check solver for unsat assertion verdicts
	MaxInstr    int64       // per path
	MaxDepth    int         // call depth
	MaxPaths    int64
	MaxViol     int
	Deadline    time.Time
	OwnPkg      func(*ssa.Package) bool
	Verbose     bool
	FixedInputs map[string]any          // concrete replay inside the engine (engine self-validation)
	IsKnown     func(v *Violation) bool // known findings do not count towards MaxViol
}

type InputVal struct {
	Sort string `json:"sort"` // f64 | bool | bvN | choice
	Bits uint64 `json:"bits"` // raw bits (f64: IEEE bits; bool: 0/1; choice: index)
	Text string `json:"text"` // human readable
}

type Violation struct {
	Kind      string              `json:"kind"` // assert | panic | hang | undecided
	Msg       string              `json:"msg"`
	Verdict   string              `json:"verdict"` // sat | concrete | unknown
	Inputs    map[string]InputVal `json:"inputs"`
	Decisions []int32             `json:"decisions"`
	Reached   []string            `json:"reached"`
	Stack     string              `json:"stack,omitempty"`
}

type Stats struct {
	Paths          int64 // executions started
	Completed      int64 // ran to the end of the harness
	Aborted        int64 // ended by zzAssume / infeasible
	Truncated      int64 // hit instruction/depth budget
	Unsupported    int64 // engine could not model something
	Exited         int64
	SymPaths       int64 // completed paths that reached >=1 assertion with a symbolic input live
	Instr          int64
	BranchQueries  int64
	AssertQueries  int64
	AssertUnsat    int64
	AssertSat      int64
	AssertUnknown  int64
	AssertConcrete int64 // assertions whose condition was concrete on the path (true)
	BranchUnknown  int64
	ImplicitChecks int64
	ConvUndef      int64
	Concretised    int64
	CrossChecked   int64
	CrossUnknown   int64
	CrossDisagree  int64
	SolverNs       int64
	Queries        int64
	Unexplored     int64 // pending prefixes left when a budget stopped the run
	InfeasibleDropped int64 // paths kept alive by an undecided branch query and later shown infeasible
	MaxPC          int
}

func (s *Stats) Add(o *Stats) {
	s.Paths += o.Paths
	s.Completed += o.Completed
	s.Aborted += o.Aborted
	s.Truncated += o.Truncated
	s.Unsupported += o.Unsupported
	s.InfeasibleDropped += o.InfeasibleDropped
	s.Exited += o.Exited
	s.SymPaths += o.SymPaths
	s.Instr += o.Instr
	s.BranchQueries += o.BranchQueries
	s.AssertQueries += o.AssertQueries
	s.AssertUnsat += o.AssertUnsat
	s.AssertSat += o.AssertSat
	s.AssertUnknown += o.AssertUnknown
	s.AssertConcrete += o.AssertConcrete
	s.BranchUnknown += o.BranchUnknown
	s.ImplicitChecks += o.ImplicitChecks
	s.ConvUndef += o.ConvUndef
	s.Concretised += o.Concretised
	s.CrossChecked += o.CrossChecked
	s.CrossUnknown += o.CrossUnknown
	s.CrossDisagree += o.CrossDisagree
	s.SolverNs += o.SolverNs
	s.Queries += o.Queries
	if o.MaxPC > s.MaxPC {
		s.MaxPC = o.MaxPC
	}
}

type Sample struct {
	Decisions []int32             `json:"decisions"`
	Inputs    map[string]InputVal `json:"model_inputs,omitempty"`
	PCSize    int                 `json:"pc_size"`
	Asserts   []string            `json:"asserts"`
	Reached   []string            `json:"reached"`
	Note      string              `json:"note,omitempty"`
}

type Result struct {
	Stats        Stats
	Violations   []Violation
	Reached      map[string]int64
	Funcs        map[string]int64 // evy SSA function -> instructions executed
	Unsupported  map[string]int64
	TruncatedWhy map[string]int64
	Samples      []Sample
	AssertMsgs   map[string]int64
	Externals    map[string]int64
	Wall         time.Duration
	Notes        []string
}

// ---- shared work list ----

type shared struct {
	mu       sync.Mutex
	cond     *sync.Cond
	pending  [][]int32
	active   int
	stop     bool
	started  int64
	res      *Result
	cfg      *Config
	nviol    int32
	seenViol map[string]bool
}

func (sh *shared) take() ([]int32, bool) {
	sh.mu.Lock()
	defer sh.mu.Unlock()
	for {
		if sh.stop {
			return nil, false
		}
		if n := len(sh.pending); n > 0 {
			if sh.cfg.MaxPaths > 0 && sh.started >= sh.cfg.MaxPaths || !sh.cfg.Deadline.IsZero() && time.Now().After(sh.cfg.Deadline) {
				sh.stop = true
				sh.cond.Broadcast()
				return nil, false
			}
			p := sh.pending[n-1]
			sh.pending = sh.pending[:n-1]
			sh.active++
			sh.started++
			return p, true
		}
		if sh.active == 0 {
			sh.cond.Broadcast()
			return nil, false
		}
		sh.cond.Wait()
	}
}

func (sh *shared) done() {
	sh.mu.Lock()
	sh.active--
	if sh.active == 0 && len(sh.pending) == 0 {
		sh.cond.Broadcast()
	}
	sh.mu.Unlock()
}

func (sh *shared) push(p []int32) {
	sh.mu.Lock()
	sh.pending = append(sh.pending, p)
	sh.cond.Signal()
	sh.mu.Unlock()
}

// ---- per-worker explorer ----

type abbrevDef struct{ sort, body string }
type abbrevTable struct {
	m    map[string]abbrevDef
	byBd map[string]string
	n    int
}

type inputDecl struct {
	name, sort, user string
}

type explorer struct {
	i   *interpreter
	sh  *shared
	cfg *Config
	sol *solver
	crs *solver

	// per path
	prefix    []int32
	taken     []int32
	pc        []string
	pcSet     map[string]bool // the conjuncts of pc, for the syntactic shortcut in decide
	inputs    []inputDecl
	occ       map[string]int
	abbr      *abbrevTable
	atoms     []atom
	atomIdx   map[string]int
	freshN    int
	addrN     int // addresses printed so far on this path (every printed address is distinct)
	steps     int64
	depth     int
	reached   []string
	asserts   []string
	symLive   bool
	mapOrder  bool
	nviolPath int
	choices   map[string]InputVal
	lastModel map[string]string

	// per worker accumulators
	stats     Stats
	funcs     map[*ssa.Function]*int64
	exts      map[string]int64
	reachCnt  map[string]int64
	unsup     map[string]int64
	trunc     map[string]int64
	amsgs     map[string]int64
	samples   []Sample
	stubState map[string]any  // per-path state of stubs (model file system ...)
	out       strings.Builder // captured stdout of the path
	exitCode  int
	inInit    bool
	catchExit bool
	effects   []string
}

func (e *explorer) effect(s string) { e.effects = append(e.effects, s) }

func (e *explorer) stdout(s string) { e.out.WriteString(s) }

var runeClassCache sync.Map

// runeClass models a unicode predicate as a bit-vector range formula built
// from the tables of the Go release the engine is compiled with.
func (e *explorer) runeClass(x symI, name string, pred func(rune) bool) value {
	fn := "uc_" + name
	var body string
	if b, ok := runeClassCache.Load(name); ok {
		body = b.(string)
	} else {
		var sb strings.Builder
		sb.WriteString("(or false")
		for r := rune(0); r <= 0x10FFFF; {
			if !pred(r) {
				r++
				continue
			}
			lo := r
			for r <= 0x10FFFF && pred(r) {
				r++
			}
			hi := r - 1
			if lo == hi {
				fmt.Fprintf(&sb, " (= r %s)", bvlit(uint64(lo), 32))
			} else {
				fmt.Fprintf(&sb, " (and (bvule %s r) (bvule r %s))", bvlit(uint64(lo), 32), bvlit(uint64(hi), 32))
			}
		}
		sb.WriteString(")")
		body = sb.String()
		runeClassCache.Store(name, body)
	}
	cmd := "(define-fun " + fn + " ((r (_ BitVec 32))) Bool " + body + ")"
	e.sol.declareRaw(fn, cmd)
	if e.crs != nil {
		e.crs.declareRaw(fn, cmd)
	}
	return symB{"(" + fn + " " + x.t + ")"}
}

func (e *explorer) resetPath(prefix []int32) {
	e.prefix, e.taken, e.pc, e.inputs = prefix, nil, nil, nil
	e.pcSet = map[string]bool{}
	e.occ = map[string]int{}
	e.abbr = &abbrevTable{m: map[string]abbrevDef{}, byBd: map[string]string{}}
	e.atoms, e.atomIdx = nil, map[string]int{}
	e.freshN, e.steps, e.depth = 0, 0, 0
	e.reached, e.asserts = nil, nil
	e.symLive, e.mapOrder = false, false
	e.nviolPath = 0
	e.choices = map[string]InputVal{}
	e.stubState = map[string]any{}
	e.lastModel = nil
	e.out.Reset()
	e.exitCode = -1
	e.catchExit = false
	e.effects = nil
}

// abbrev names a long term so that terms stay small (DAG sharing).
func (e *explorer) abbrev(term, sort string) string {
	if len(term) <= 96 {
		return term
	}
	if n, ok := e.abbr.byBd[term]; ok {
		return n
	}
	e.abbr.n++
	n := fmt.Sprintf("!t%d", e.abbr.n)
	e.abbr.m[n] = abbrevDef{sort, term}
	e.abbr.byBd[term] = n
	return n
}

func sortTag(sort string) string {
	switch sort {
	case f64:
		return "f64"
	case "Bool":
		return "bool"
	}
	var n int
	fmt.Sscanf(sort, "(_ BitVec %d)", &n)
	return fmt.Sprintf("bv%d", n)
}

func sanitize(s string) string {
	var sb strings.Builder
	for _, r := range s {
		if r >= 'a' && r <= 'z' || r >= 'A' && r <= 'Z' || r >= '0' && r <= '9' || r == '_' {
			sb.WriteRune(r)
		} else {
			sb.WriteByte('_')
		}
	}
	return sb.String()
}

// input declares (once per solver) and registers a named symbolic input.
// user is the replay key "name#occ".
func (e *explorer) input(name, sort string) (term, user string) {
	k := e.occ[name]
	e.occ[name] = k + 1
	user = fmt.Sprintf("%s#%d", name, k)
	term = fmt.Sprintf("in_%s_%d_%s", sanitize(name), k, sortTag(sort))
	e.sol.declare(term, sort)
	if e.crs != nil {
		e.crs.declare(term, sort)
	}
	e.inputs = append(e.inputs, inputDecl{term, sort, user})
	e.symLive = true
	return
}

func (e *explorer) freshVar(prefix, sort string) string {
	e.freshN++
	term := fmt.Sprintf("fv_%s_%d_%s", sanitize(prefix), e.freshN, sortTag(sort))
	e.sol.declare(term, sort)
	if e.crs != nil {
		e.crs.declare(term, sort)
	}
	e.inputs = append(e.inputs, inputDecl{term, sort, ""})
	return term
}

func (e *explorer) query(extra string, want bool) (string, map[string]string) {
	as := e.pc
	if extra != "" {
		as = append(append(make([]string, 0, len(e.pc)+1), e.pc...), extra)
	}
	var names []string
	if want {
		for _, in := range e.inputs {
			names = append(names, in.name)
		}
	}
	if len(as) == 0 && len(names) == 0 {
		return "sat", nil // the empty conjunction: no solver call needed
	}
	t0 := time.Now()
	r, m := e.sol.check(as, e.abbr, names)
	e.stats.SolverNs += int64(time.Since(t0))
	e.stats.Queries++
	if len(as) > e.stats.MaxPC {
		e.stats.MaxPC = len(as)
	}
	return r, m
}

func (e *explorer) addPC(c string) {
	if c == "true" {
		return
	}
	e.pc = append(e.pc, c)
	e.pcSet[c] = true
}

// decide resolves a symbolic boolean. Decision encoding: bit0 = value,
// bit1 = implied by the path condition (no fork, not added to pc).
func (e *explorer) decide(cond string, kind string) bool {
	switch cond {
	case "true":
		return true
	case "false":
		return false
	}
	// a condition that is literally a conjunct of the path condition (or the negation
	// of one) is decided without the solver and without a decision entry: differential
	// harnesses make the implementation's comparisons a second time in the oracle
	if e.pcSet[cond] {
		return true
	}
	if e.pcSet[sNot(cond)] {
		return false
	}
	k := len(e.taken)
	if k > maxDecisions {
		panic(budgetExceeded{"decisions"})
	}
	var d int32
	if k < len(e.prefix) {
		d = e.prefix[k]
	} else {
		e.stats.BranchQueries++
		rt, _ := e.query(cond, false)
		if rt == "unsat" {
			d = 2 // false, implied
		} else {
			rf, _ := e.query(sNot(cond), false)
			if rt == "unknown" || rf == "unknown" {
				e.stats.BranchUnknown++
			}
			if rf == "unsat" {
				d = 3 // true, implied
			} else {
				d = 1
				alt := append(append(make([]int32, 0, len(e.taken)+1), e.taken...), 0)
				e.sh.push(alt)
			}
		}
	}
	e.taken = append(e.taken, d)
	val := d&1 == 1
	if d&2 == 0 {
		if val {
			e.addPC(cond)
		} else {
			e.addPC(sNot(cond))
		}
	}
	return val
}

// choose is an n-ary decision. conds[k] (may be nil: unconstrained choice)
// is the condition under which branch k is taken.
func (e *explorer) choose(n int, conds []string, kind string) int {
	if n <= 0 {
		panic(pathAbort{"empty choice"})
	}
	k := len(e.taken)
	var d int32
	if k < len(e.prefix) {
		d = e.prefix[k]
	} else {
		var feas []int32
		for b := 0; b < n; b++ {
			if conds == nil {
				feas = append(feas, int32(b))
				continue
			}
			if conds[b] == "false" {
				continue
			}
			e.stats.BranchQueries++
			r, _ := e.query(conds[b], false)
			if r == "unknown" {
				e.stats.BranchUnknown++
			}
			if r != "unsat" {
				feas = append(feas, int32(b))
			}
		}
		if len(feas) == 0 {
			panic(pathAbort{"no feasible choice"})
		}
		d = feas[0]
		for j := len(feas) - 1; j >= 1; j-- {
			alt := append(append(make([]int32, 0, len(e.taken)+1), e.taken...), feas[j])
			e.sh.push(alt)
		}
	}
	e.taken = append(e.taken, d)
	if conds != nil {
		e.addPC(conds[d])
	}
	return int(d)
}

// concretize turns a symbolic integer into a concrete one by case split
// over [lo,hi]; values outside are reported through outside (may panic).
func (e *explorer) splitInt(x symI, lo, hi int64, kind string) int64 {
	n := int(hi - lo + 1)
	if n <= 0 || n > 4096 {
		panic(unsupported("splitInt range %d..%d", lo, hi))
	}
	conds := make([]string, n)
	bits := kindBits(x.k)
	xt := e.abbrev(x.t, bvsort(bits))
	for k := 0; k < n; k++ {
		conds[k] = "(= " + xt + " " + bvlit(uint64(lo+int64(k)), bits) + ")"
	}
	return lo + int64(e.choose(n, conds, kind))
}

func (e *explorer) reach(label string) {
	e.reached = append(e.reached, label)
}

func (e *explorer) modelInputs(m map[string]string) map[string]InputVal {
	out := map[string]InputVal{}
	for k, v := range e.choices {
		out[k] = v
	}
	for _, in := range e.inputs {
		raw, ok := m[in.name]
		if !ok {
			continue
		}
		tag := sortTag(in.sort)
		v, err := parseModelValue(tag, raw)
		key := in.user
		if key == "" {
			key = "~" + in.name
		}
		if err != nil {
			out[key] = InputVal{Sort: tag, Text: "unparsed:" + raw}
			continue
		}
		switch v := v.(type) {
		case float64:
			out[key] = InputVal{Sort: tag, Bits: math.Float64bits(v), Text: fmt.Sprint(v)}
		case bool:
			b := uint64(0)
			if v {
				b = 1
			}
			out[key] = InputVal{Sort: tag, Bits: b, Text: fmt.Sprint(v)}
		case uint64:
			out[key] = InputVal{Sort: tag, Bits: v, Text: fmt.Sprint(int64(v))}
		}
	}
	return out
}

func (e *explorer) violation(kind, msg, verdict string, model map[string]string, stack string) {
	e.nviolPath++
	v := Violation{Kind: kind, Msg: msg, Verdict: verdict, Inputs: e.modelInputs(model),
		Decisions: append([]int32{}, e.taken...), Reached: append([]string{}, e.reached...), Stack: stack}
	sh := e.sh
	sh.mu.Lock()
	key := kind + "|" + msg + "|" + choiceKey(v.Inputs)
	if !sh.seenViol[key] {
		sh.seenViol[key] = true
		sh.res.Violations = append(sh.res.Violations, v)
		if sh.cfg.IsKnown == nil || !sh.cfg.IsKnown(&v) {
			sh.nviol++
		}
		if sh.cfg.MaxViol > 0 && int(sh.nviol) >= sh.cfg.MaxViol {
			sh.stop = true
			sh.cond.Broadcast()
		}
	}
	sh.mu.Unlock()
}

func choiceKey(in map[string]InputVal) string {
	var ks []string
	for k, v := range in {
		if v.Sort == "choice" {
			ks = append(ks, fmt.Sprintf("%s=%d", k, v.Bits))
		}
	}
	sort.Strings(ks)
	return strings.Join(ks, ",")
}

// assert checks a harness assertion on the current path.
func (e *explorer) assert(c value, msg string) {
	e.asserts = append(e.asserts, msg)
	e.amsgs[msg]++
	switch c := c.(type) {
	case bool:
		if c {
			e.stats.AssertConcrete++
			return
		}
		// the path itself must be feasible: branch queries that timed out keep both
		// sides, so a concretely false assertion on an infeasible path is not a finding
		switch r, m := e.query("", true); r {
		case "sat":
			e.violation("assert", msg, "concrete", m, e.stack())
		case "unsat":
			e.stats.InfeasibleDropped++
		default:
			e.violation("undecided", msg+" (false on a path whose feasibility the solver could not decide)", "unknown", m, "")
		}
		panic(pathAbort{"assertion concretely false"})
	case symB:
		e.stats.AssertQueries++
		neg := sNot(c.t)
		r, m := e.query(neg, true)
		switch r {
		case "unsat":
			e.stats.AssertUnsat++
			if e.crs != nil {
				e.crossCheck(neg, msg)
			}
		case "sat":
			e.stats.AssertSat++
			e.violation("assert", msg, "sat", m, e.stack())
			// continue under the assumption that the assertion holds
			if rr, _ := e.query(c.t, false); rr == "unsat" {
				panic(pathAbort{"assertion never holds on this path"})
			}
			e.addPC(c.t)
		default:
			e.stats.AssertUnknown++
			_, m := e.query("", true)
			e.violation("undecided", msg, "unknown", m, "")
		}
	default:
		panic(unsupported("zzAssert on %T", c))
	}
}

func (e *explorer) crossCheck(neg, msg string) {
	as := append(append(make([]string, 0, len(e.pc)+1), e.pc...), neg)
	t0 := time.Now()
	r, _ := e.crs.check(as, e.abbr, nil)
	e.stats.SolverNs += int64(time.Since(t0))
	e.stats.CrossChecked++
	switch r {
	case "unknown":
		e.stats.CrossUnknown++
	case "sat":
		e.stats.CrossDisagree++
		e.violation("undecided", "solver disagreement on: "+msg, "unknown", nil, "")
	}
}

func (e *explorer) stack() string { return "" }

// pathViolation reports a violation found at the end of a path (panic, budget)
// after confirming that the path condition is satisfiable; see assert.
func (e *explorer) pathViolation(kind, msg, verdict, stack string) {
	switch r, m := e.query("", true); r {
	case "sat":
		e.violation(kind, msg, verdict, m, stack)
	case "unsat":
		e.stats.InfeasibleDropped++
	default:
		e.violation("undecided", msg+" (on a path whose feasibility the solver could not decide)", "unknown", m, "")
	}
}

// ---- running ----

func newInterp(prog *ssa.Program, sizes types.Sizes) *interpreter {
	i := &interpreter{
		prog:       prog,
		globals:    make(map[*ssa.Global]*value),
		mode:       0,
		sizes:      sizes,
		goroutines: 1,
	}
	i.runtimeErrorString = i.stdType("runtime", "errorString", false)
	initReflect(i)
	return i
}

func (i *interpreter) initGlobals() {
	for _, p := range i.prog.AllPackages() {
		for _, m := range p.Members {
			if v, ok := m.(*ssa.Global); ok {
				cell := zero(mustDeref(v.Type()))
				if g, ok := i.globals[v]; ok {
					*g = cell
				} else {
					c := cell
					i.globals[v] = &c
				}
			}
		}
	}
	initStdGlobals(i)
}

// Explore runs the harness over all feasible paths within the budgets.
func Explore(cfg *Config) *Result {
	t0 := time.Now()
	res := &Result{Reached: map[string]int64{}, Funcs: map[string]int64{}, Unsupported: map[string]int64{},
		TruncatedWhy: map[string]int64{}, AssertMsgs: map[string]int64{}, Externals: map[string]int64{}}
	sh := &shared{res: res, cfg: cfg, seenViol: map[string]bool{}}
	sh.cond = sync.NewCond(&sh.mu)
	sh.pending = [][]int32{nil}
	if cfg.Workers <= 0 {
		cfg.Workers = 1
	}
	if cfg.MaxInstr == 0 {
		cfg.MaxInstr = 20_000_000
	}
	if cfg.MaxDepth == 0 {
		cfg.MaxDepth = 400
	}
	fn := cfg.Pkg.Func(cfg.Harness)
	if fn == nil {
		res.Notes = append(res.Notes, "harness not found: "+cfg.Harness)
		res.Stats.Unsupported = 1
		res.Unsupported["harness not found: "+cfg.Harness] = 1
		return res
	}
	sizes := &types.StdSizes{WordSize: 8, MaxAlign: 8}
	var wg sync.WaitGroup
	var fatal atomic.Value
	for w := 0; w < cfg.Workers; w++ {
		wg.Add(1)
		go func(w int) {
			defer wg.Done()
			e := &explorer{sh: sh, cfg: cfg, funcs: map[*ssa.Function]*int64{}, exts: map[string]int64{},
				reachCnt: map[string]int64{}, unsup: map[string]int64{}, trunc: map[string]int64{}, amsgs: map[string]int64{}}
			e.sol = newSolver(cfg.Solver)
			defer e.sol.close()
			if cfg.Cross != nil {
				e.crs = newSolver(*cfg.Cross)
				defer e.crs.close()
			}
			e.i = newInterp(cfg.Pkg.Prog, sizes)
			e.i.ex = e
			e.i.ownPkg = cfg.OwnPkg
			for {
				prefix, ok := sh.take()
				if !ok {
					break
				}
				e.runPath(fn, prefix)
				sh.done()
			}
			sh.mu.Lock()
			res.Stats.Add(&e.stats)
			for f, n := range e.funcs {
				res.Funcs[f.String()] += *n
			}
			for k, n := range e.exts {
				res.Externals[k] += n
			}
			for k, n := range e.reachCnt {
				res.Reached[k] += n
			}
			for k, n := range e.unsup {
				res.Unsupported[k] += n
			}
			for k, n := range e.trunc {
				res.TruncatedWhy[k] += n
			}
			for k, n := range e.amsgs {
				res.AssertMsgs[k] += n
			}
			if len(res.Samples) < 6 {
				res.Samples = append(res.Samples, e.samples...)
				if len(res.Samples) > 6 {
					res.Samples = res.Samples[:6]
				}
			}
			sh.mu.Unlock()
		}(w)
	}
	if cfg.Verbose {
		stopProg := make(chan struct{})
		defer close(stopProg)
		go func() {
			tk := time.NewTicker(10 * time.Second)
			defer tk.Stop()
			for {
				select {
				case <-stopProg:
					return
				case <-tk.C:
					sh.mu.Lock()
					fmt.Fprintf(os.Stderr, "progress %s: started=%d pending=%d active=%d violations=%d\n", cfg.Harness, sh.started, len(sh.pending), sh.active, len(res.Violations))
					sh.mu.Unlock()
				}
			}
		}()
	}
	wg.Wait()
	if f := fatal.Load(); f != nil {
		res.Notes = append(res.Notes, fmt.Sprint(f))
	}
	res.Stats.Unexplored = int64(len(sh.pending))
	res.Wall = time.Since(t0)
	return res
}

func (e *explorer) runPath(fn *ssa.Function, prefix []int32) {
	e.resetPath(prefix)
	e.stats.Paths++
	i := e.i
	i.initGlobals()
	completed := false
	func() {
		defer func() {
			r := recover()
			e.stats.Instr += e.steps
			if r == nil {
				return
			}
			switch r := r.(type) {
			case pathAbort:
				e.stats.Aborted++
			case pathExit:
				e.stats.Exited++
				completed = true
			case budgetExceeded:
				e.stats.Truncated++
				e.trunc[r.what]++
				e.pathViolation("hang", "budget exceeded: "+r.what, "budget", "")
			case engineUnsupported:
				e.stats.Unsupported++
				e.unsup[r.msg]++
				if e.cfg.Verbose {
					fmt.Fprintf(os.Stderr, "unsupported: %s\n", r.msg)
				}
			case targetPanic:
				e.pathViolation("panic", "uncaught target panic: "+panicString(i, r.v), "path", "")
			default:
				// Go runtime error raised inside the interpreter while executing
				// target code (nil deref, index out of range, failed assertion):
				// the same error the real code would raise.
				st := ""
				if e.cfg.Verbose {
					st = string(debug.Stack())
				}
				e.pathViolation("panic", fmt.Sprintf("uncaught runtime panic: %v", r), "path", st)
			}
		}()
		// package initialisation (bodies only for own packages) then harness
		e.inInit = true
		call(i, nil, 0, e.cfg.Pkg.Func("init"), nil)
		e.inInit = false
		call(i, nil, 0, fn, nil)
		completed = true
	}()
	if completed {
		e.stats.Completed++
		if e.symLive && len(e.asserts) > 0 {
			e.stats.SymPaths++
		}
		seen := map[string]bool{}
		for _, r := range e.reached {
			if !seen[r] {
				seen[r] = true
				e.reachCnt[r]++
			}
		}
		if len(e.samples) < 3 && len(e.asserts) > 0 && (e.symLive || len(e.samples) == 0) {
			var m map[string]string
			if e.symLive {
				_, m = e.query("", true)
			}
			as := e.asserts
			if len(as) > 8 {
				as = as[:8]
			}
			rs := e.reached
			if len(rs) > 12 {
				rs = rs[:12]
			}
			e.samples = append(e.samples, Sample{Decisions: append([]int32{}, e.taken...), Inputs: e.modelInputs(m),
				PCSize: len(e.pc), Asserts: append([]string{}, as...), Reached: append([]string{}, rs...)})
		}
	}
}

func panicString(i *interpreter, v value) string {
	defer func() { recover() }()
	if itf, ok := v.(iface); ok {
		if itf.t == nil {
			return "nil"
		}
		if m := lookupMethodByName(i, itf.t, "Error"); m != nil && m.Blocks != nil {
			return fmt.Sprint(call(i, nil, 0, m, []value{itf.v}))
		}
		if ne, ok := itf.v.(error); ok {
			return ne.Error()
		}
		return toString(itf.v)
	}
	return toString(v)
}
