package symgo

// Ideal cryptographic primitives for learn/pkg/learn (C20): decryption
// returns the message iff ciphertext and key are exactly those of the
// matching encryption, otherwise an error (the standard contract of
// RSA-OAEP and of authenticated encryption). The real big-number and
// table-driven code is far beyond an SMT encoding; it is replaced by this
// contract, which is stated as an assumption of the check.

import (
	"encoding/base64"
	"fmt"
	"go/types"
	"strings"
)

type sealRec struct {
	key string  // session key bytes
	ct  []value // ciphertext bytes (concrete at creation)
	pt  []value
}

type rsaRec struct {
	keyID int
	ct    []value
	msg   []value
}

type cryptoState struct {
	seals  []sealRec
	rsas   []rsaRec
	nKeys  int
	rsaLen int
}

type gcmObj struct{ key string }
type blockObj struct{ key string }

func (e *explorer) crypto() *cryptoState {
	if c, ok := e.stubState["crypto"].(*cryptoState); ok {
		return c
	}
	c := &cryptoState{rsaLen: 8}
	e.stubState["crypto"] = c
	return c
}

func copyVals(v value) []value {
	s, _ := v.([]value)
	return append([]value{}, s...)
}

// bytesEq: condition under which the (possibly symbolic) byte slice a equals
// the concrete byte slice b.
func bytesEqCond(a, b []value) string {
	if len(a) != len(b) {
		return "false"
	}
	c := "true"
	for k := range a {
		if !isSym(a[k]) && !isSym(b[k]) {
			if a[k].(byte) != b[k].(byte) {
				return "false"
			}
			continue
		}
		c = sAnd(c, "(= "+toI(a[k], types.Uint8)+" "+toI(b[k], types.Uint8)+")")
	}
	return c
}

func keyIDOfPub(v value) int {
	p, ok := v.(*value)
	if !ok || p == nil {
		panic(targetPanic{"nil *rsa.PublicKey"})
	}
	return int(asInt64((*p).(structure)[1]))
}

func keyIDOfPriv(v value) int {
	p, ok := v.(*value)
	if !ok || p == nil {
		panic(targetPanic{"nil *rsa.PrivateKey"})
	}
	return int(asInt64((*p).(structure)[0].(structure)[1]))
}

func init() {
	for k, v := range map[string]externalFn{
		".zzCryptoRSALen": func(fr *frame, a []value) value { fr.i.ex.crypto().rsaLen = int(asInt64(a[0])); return nil },
		"crypto/sha256.New": func(fr *frame, a []value) value {
			return iface{t: fr.i.stdType("crypto/sha256", "digest", true), v: &opaque{"sha256"}}
		},
		"io.ReadFull": func(fr *frame, a []value) value {
			// rand.Reader: any bytes; the envelope never inspects them
			c := fr.i.ex.crypto()
			c.nKeys++
			buf, _ := a[1].([]value)
			for k := range buf {
				buf[k] = byte(0x10 + c.nKeys)
			}
			fr.i.ex.reach("stub:rand.Reader")
			return tuple{len(buf), iface{}}
		},
		"crypto/aes.NewCipher": func(fr *frame, a []value) value {
			key, _ := a[0].([]value)
			if n := len(key); n != 16 && n != 24 && n != 32 {
				return tuple{iface{}, fr.i.newErr(fmt.Sprintf("crypto/aes: invalid key size %d", n), nil)}
			}
			noSymBytes("aes.NewCipher key", key)
			return tuple{iface{t: fr.i.stdType("crypto/aes", "aesCipher", true), v: &blockObj{valuesToString(key)}}, iface{}}
		},
		"crypto/cipher.NewGCM": func(fr *frame, a []value) value {
			b := a[0].(iface).v.(*blockObj)
			return tuple{iface{t: fr.i.stdType("crypto/cipher", "gcm", true), v: &gcmObj{b.key}}, iface{}}
		},
		"(*crypto/cipher.gcm).NonceSize": func(fr *frame, a []value) value { return 12 },
		"(*crypto/cipher.gcm).Overhead":  func(fr *frame, a []value) value { return 16 },
		"(*crypto/cipher.gcm).Seal": func(fr *frame, a []value) value {
			g := a[0].(*gcmObj)
			c := fr.i.ex.crypto()
			dst, _ := a[1].([]value)
			pt := copyVals(a[3])
			noSymBytes("gcm.Seal plaintext", pt)
			ct := make([]value, 0, len(pt)+16)
			for k, b := range pt {
				ct = append(ct, b.(byte)^0x5A^byte(k))
			}
			for k := 0; k < 16; k++ {
				ct = append(ct, byte(0xC0+k)^byte(len(c.seals)))
			}
			c.seals = append(c.seals, sealRec{key: g.key, ct: ct, pt: pt})
			fr.i.ex.reach("stub:gcm.Seal")
			return append(append([]value{}, dst...), ct...)
		},
		"(*crypto/cipher.gcm).Open": func(fr *frame, a []value) value {
			g := a[0].(*gcmObj)
			c := fr.i.ex.crypto()
			ct, _ := a[3].([]value)
			fr.i.ex.reach("stub:gcm.Open")
			for _, r := range c.seals {
				if r.key != g.key {
					continue
				}
				if fr.i.ex.decide(bytesEqCond(ct, r.ct), "gcm.Open") {
					dst, _ := a[1].([]value)
					return tuple{append(append([]value{}, dst...), r.pt...), iface{}}
				}
			}
			return tuple{[]value(nil), fr.i.newErr("cipher: message authentication failed", nil)}
		},
		"crypto/rsa.EncryptOAEP": func(fr *frame, a []value) value {
			c := fr.i.ex.crypto()
			id := keyIDOfPub(a[2])
			msg := copyVals(a[3])
			ct := make([]value, c.rsaLen)
			for k := range ct {
				ct[k] = byte(0xA0 + id*16 + len(c.rsas) + k)
			}
			c.rsas = append(c.rsas, rsaRec{keyID: id, ct: ct, msg: msg})
			fr.i.ex.reach("stub:rsa.EncryptOAEP")
			return tuple{append([]value{}, ct...), iface{}}
		},
		"crypto/rsa.DecryptOAEP": func(fr *frame, a []value) value {
			c := fr.i.ex.crypto()
			id := keyIDOfPriv(a[2])
			ct, _ := a[3].([]value)
			fr.i.ex.reach("stub:rsa.DecryptOAEP")
			for _, r := range c.rsas {
				if r.keyID != id {
					continue
				}
				if fr.i.ex.decide(bytesEqCond(ct, r.ct), "rsa.DecryptOAEP") {
					return tuple{append([]value{}, r.msg...), iface{}}
				}
			}
			return tuple{[]value(nil), fr.i.newErr("crypto/rsa: decryption error", nil)}
		},
		"crypto/x509.MarshalPKCS1PublicKey": func(fr *frame, a []value) value {
			return toByteValues(fmt.Sprintf("pub:%d", keyIDOfPub(a[0])))
		},
		// the engine runs one goroutine: locks are no-ops
		"(*sync.Mutex).Lock":      func(fr *frame, a []value) value { return nil },
		"(*sync.Mutex).Unlock":    func(fr *frame, a []value) value { return nil },
		"(*sync.RWMutex).Lock":    func(fr *frame, a []value) value { return nil },
		"(*sync.RWMutex).Unlock":  func(fr *frame, a []value) value { return nil },
		"(*sync.RWMutex).RLock":   func(fr *frame, a []value) value { return nil },
		"(*sync.RWMutex).RUnlock": func(fr *frame, a []value) value { return nil },
		"crypto/x509.ParsePKCS1PublicKey": func(fr *frame, a []value) value {
			s := bytesOf(a[0])
			var id int
			if _, err := fmt.Sscanf(s, "pub:%d", &id); err != nil || !strings.HasPrefix(s, "pub:") {
				return tuple{(*value)(nil), fr.i.newErr("x509: failed to parse public key", nil)}
			}
			p := new(value)
			*p = structure{(*value)(nil), id}
			return tuple{p, iface{}}
		},
		"crypto/x509.ParsePKCS1PrivateKey": func(fr *frame, a []value) value {
			s := bytesOf(a[0])
			var id int
			if _, err := fmt.Sscanf(s, "priv:%d", &id); err != nil || !strings.HasPrefix(s, "priv:") {
				return tuple{(*value)(nil), fr.i.newErr("x509: failed to parse private key", nil)}
			}
			p := new(value)
			*p = structure{structure{(*value)(nil), id}, (*value)(nil), []value(nil), structure{}}
			return tuple{p, iface{}}
		},
		"(*encoding/base64.Encoding).EncodeToString": func(fr *frame, a []value) value {
			b, _ := a[1].([]value)
			noSymBytes("base64 encode", b)
			return base64.StdEncoding.EncodeToString([]byte(valuesToString(b)))
		},
		"(*encoding/base64.Encoding).DecodeString": func(fr *frame, a []value) value {
			noAtoms("base64 decode", a[1])
			b, err := base64.StdEncoding.DecodeString(a[1].(string))
			if err != nil {
				return tuple{[]value(nil), fr.i.newErr(err.Error(), nil)}
			}
			return tuple{toByteValues(string(b)), iface{}}
		},
	} {
		if strings.HasPrefix(k, ".zz") {
			externalSuffix[k] = v
		} else {
			externals[k] = wrapExternal(k, v)
		}
	}
}

func noSymBytes(what string, b []value) {
	for _, x := range b {
		if isSym(x) {
			panic(unsupported("%s with symbolic bytes", what))
		}
	}
}
