package symgo

// Symbolic scalars: SMT-LIB2 terms for float64, bool and fixed-width integers.
//
// Integers are bit-vectors of the exact Go width (wrap-around is exact).
// float64 uses the FloatingPoint theory with RNE (Go's rounding mode).
// Conversions float->int outside the representable range are
// implementation-defined in Go: modelled as a fresh unconstrained value.

import (
	"fmt"
	"go/token"
	"go/types"
	"math"
	"strconv"
	"strings"
)

type symF struct{ t string } // float64 term
type symB struct{ t string } // Bool term
type symI struct {
	t string
	k types.BasicKind // exact Go integer kind (Int, Int32, Uint8, ...)
}

func isSym(v value) bool {
	switch v.(type) {
	case symF, symB, symI:
		return true
	}
	return false
}

const f64 = "(_ FloatingPoint 11 53)"

func kindBits(k types.BasicKind) int {
	switch k {
	case types.Int8, types.Uint8:
		return 8
	case types.Int16, types.Uint16:
		return 16
	case types.Int32, types.Uint32:
		return 32
	}
	return 64
}

func kindSigned(k types.BasicKind) bool {
	switch k {
	case types.Int, types.Int8, types.Int16, types.Int32, types.Int64:
		return true
	}
	return false
}

func normKind(k types.BasicKind) types.BasicKind {
	switch k {
	case types.UntypedInt:
		return types.Int
	case types.UntypedRune:
		return types.Int32
	}
	return k
}

func basicOf(t types.Type) *types.Basic {
	b, _ := t.Underlying().(*types.Basic)
	return b
}

func bvsort(bits int) string { return fmt.Sprintf("(_ BitVec %d)", bits) }

func bvlit(v uint64, bits int) string {
	if bits < 64 {
		v &= (1 << uint(bits)) - 1
	}
	return fmt.Sprintf("(_ bv%d %d)", v, bits)
}

func fplit(f float64) string {
	return fmt.Sprintf("((_ to_fp 11 53) #x%016x)", math.Float64bits(f))
}

func toF(v value) string {
	switch v := v.(type) {
	case symF:
		return v.t
	case float64:
		return fplit(v)
	}
	panic(unsupported("toF %T", v))
}

func toI(v value, k types.BasicKind) string {
	switch v := v.(type) {
	case symI:
		if kindBits(v.k) != kindBits(k) {
			return resizeBV(v.t, v.k, k)
		}
		return v.t
	}
	if kindSigned(k) {
		return bvlit(uint64(asInt64(v)), kindBits(k))
	}
	return bvlit(asUint64(v), kindBits(k))
}

func toB(v value) string {
	switch v := v.(type) {
	case symB:
		return v.t
	case bool:
		if v {
			return "true"
		}
		return "false"
	}
	panic(unsupported("toB %T", v))
}

func mkB(t string) value {
	switch t {
	case "true":
		return true
	case "false":
		return false
	}
	return symB{t}
}

func sAnd(a, b string) string {
	if a == "true" {
		return b
	}
	if b == "true" {
		return a
	}
	if a == "false" || b == "false" {
		return "false"
	}
	return "(and " + a + " " + b + ")"
}

func sOr(a, b string) string {
	if a == "false" {
		return b
	}
	if b == "false" {
		return a
	}
	if a == "true" || b == "true" {
		return "true"
	}
	return "(or " + a + " " + b + ")"
}

func sNot(a string) string {
	switch a {
	case "true":
		return "false"
	case "false":
		return "true"
	}
	if strings.HasPrefix(a, "(not ") && balancedTail(a[5:len(a)-1]) {
		return a[5 : len(a)-1]
	}
	return "(not " + a + ")"
}

// balancedTail reports whether s is a single well-formed term (so that
// stripping an enclosing "(not " ... ")" is valid).
func balancedTail(s string) bool {
	depth := 0
	for i := 0; i < len(s); i++ {
		switch s[i] {
		case '(':
			depth++
		case ')':
			depth--
			if depth < 0 {
				return false
			}
			if depth == 0 && i != len(s)-1 {
				return false
			}
		case ' ':
			if depth == 0 {
				return false
			}
		}
	}
	return depth == 0
}

func resizeBV(t string, from, to types.BasicKind) string {
	fb, tb := kindBits(from), kindBits(to)
	switch {
	case fb == tb:
		return t
	case fb > tb:
		return fmt.Sprintf("((_ extract %d 0) %s)", tb-1, t)
	case kindSigned(from):
		return fmt.Sprintf("((_ sign_extend %d) %s)", tb-fb, t)
	default:
		return fmt.Sprintf("((_ zero_extend %d) %s)", tb-fb, t)
	}
}

// symBinop builds the term for x op y where at least one side is symbolic.
// t is the static type of the X operand.
func symBinop(e *explorer, op token.Token, t types.Type, x, y value) value {
	b := basicOf(t)
	if b == nil {
		panic(unsupported("symBinop on non-basic type %v", t))
	}
	switch {
	case b.Info()&types.IsFloat != 0:
		if b.Kind() == types.Float32 {
			panic(unsupported("symbolic float32"))
		}
		a, c := e.abbrev(toF(x), f64), e.abbrev(toF(y), f64)
		switch op {
		case token.ADD:
			return symF{"(fp.add RNE " + a + " " + c + ")"}
		case token.SUB:
			return symF{"(fp.sub RNE " + a + " " + c + ")"}
		case token.MUL:
			return symF{"(fp.mul RNE " + a + " " + c + ")"}
		case token.QUO:
			return symF{"(fp.div RNE " + a + " " + c + ")"}
		case token.EQL:
			return symB{"(fp.eq " + a + " " + c + ")"}
		case token.NEQ:
			return symB{"(not (fp.eq " + a + " " + c + "))"}
		case token.LSS:
			return symB{"(fp.lt " + a + " " + c + ")"}
		case token.LEQ:
			return symB{"(fp.leq " + a + " " + c + ")"}
		case token.GTR:
			return symB{"(fp.gt " + a + " " + c + ")"}
		case token.GEQ:
			return symB{"(fp.geq " + a + " " + c + ")"}
		}
	case b.Info()&types.IsInteger != 0:
		k := normKind(b.Kind())
		bits, signed := kindBits(k), kindSigned(k)
		a := e.abbrev(toI(x, k), bvsort(bits))
		if op == token.SHL || op == token.SHR {
			return symShift(e, op, k, a, y)
		}
		c := e.abbrev(toI(y, k), bvsort(bits))
		su := func(s, u string) string {
			if signed {
				return "(" + s + " " + a + " " + c + ")"
			}
			return "(" + u + " " + a + " " + c + ")"
		}
		switch op {
		case token.ADD:
			return symI{"(bvadd " + a + " " + c + ")", k}
		case token.SUB:
			return symI{"(bvsub " + a + " " + c + ")", k}
		case token.MUL:
			return symI{"(bvmul " + a + " " + c + ")", k}
		case token.QUO, token.REM:
			if e.decide("(= "+c+" "+bvlit(0, bits)+")", "div0") {
				panic(targetPanic{iface{e.i.runtimeErrorString, "integer divide by zero"}})
			}
			if op == token.QUO {
				return symI{su("bvsdiv", "bvudiv"), k}
			}
			return symI{su("bvsrem", "bvurem"), k}
		case token.AND:
			return symI{"(bvand " + a + " " + c + ")", k}
		case token.OR:
			return symI{"(bvor " + a + " " + c + ")", k}
		case token.XOR:
			return symI{"(bvxor " + a + " " + c + ")", k}
		case token.AND_NOT:
			return symI{"(bvand " + a + " (bvnot " + c + "))", k}
		case token.EQL:
			if a == c {
				return true
			}
			return symB{"(= " + a + " " + c + ")"}
		case token.NEQ:
			if a == c {
				return false
			}
			return symB{"(not (= " + a + " " + c + "))"}
		case token.LSS:
			return symB{su("bvslt", "bvult")}
		case token.LEQ:
			return symB{su("bvsle", "bvule")}
		case token.GTR:
			return symB{su("bvsgt", "bvugt")}
		case token.GEQ:
			return symB{su("bvsge", "bvuge")}
		}
	case b.Info()&types.IsBoolean != 0:
		a, c := toB(x), toB(y)
		switch op {
		case token.EQL:
			return mkB("(= " + a + " " + c + ")")
		case token.NEQ:
			return mkB("(not (= " + a + " " + c + "))")
		case token.LAND:
			return mkB(sAnd(a, c))
		case token.LOR:
			return mkB(sOr(a, c))
		}
	}
	panic(unsupported("symBinop %v on %v (%T,%T)", op, t, x, y))
}

func symShift(e *explorer, op token.Token, k types.BasicKind, a string, y value) value {
	bits := kindBits(k)
	var cnt string // shift count as unsigned 64-bit
	switch y := y.(type) {
	case symI:
		if kindSigned(y.k) {
			if e.decide("(bvslt "+y.t+" "+bvlit(0, kindBits(y.k))+")", "negshift") {
				panic(targetPanic{iface{e.i.runtimeErrorString, "negative shift amount"}})
			}
		}
		cnt = resizeBV(y.t, y.k, types.Uint64)
		if kindBits(y.k) < 64 {
			cnt = fmt.Sprintf("((_ zero_extend %d) %s)", 64-kindBits(y.k), y.t)
		}
	default:
		cnt = bvlit(asUint64(widenU(y)), 64)
	}
	var sh string
	if bits == 64 {
		sh = cnt
	} else {
		sh = fmt.Sprintf("((_ extract %d 0) %s)", bits-1, cnt)
	}
	big := "(bvuge " + cnt + " " + bvlit(uint64(bits), 64) + ")"
	switch {
	case op == token.SHL:
		return symI{"(ite " + big + " " + bvlit(0, bits) + " (bvshl " + a + " " + sh + "))", k}
	case kindSigned(k):
		return symI{"(ite " + big + " (bvashr " + a + " " + bvlit(uint64(bits-1), bits) + ") (bvashr " + a + " " + sh + "))", k}
	default:
		return symI{"(ite " + big + " " + bvlit(0, bits) + " (bvlshr " + a + " " + sh + "))", k}
	}
}

func widenU(y value) value {
	switch y := y.(type) {
	case int, int8, int16, int32, int64:
		v := asInt64(y)
		if v < 0 {
			panic(targetPanic{"negative shift amount"})
		}
		return uint64(v)
	}
	return y
}

func symUnop(op token.Token, x value) value {
	switch x := x.(type) {
	case symF:
		if op == token.SUB {
			return symF{"(fp.neg " + x.t + ")"}
		}
	case symI:
		switch op {
		case token.SUB:
			return symI{"(bvneg " + x.t + ")", x.k}
		case token.XOR:
			return symI{"(bvnot " + x.t + ")", x.k}
		}
	case symB:
		if op == token.NOT {
			return mkB(sNot(x.t))
		}
	}
	panic(unsupported("symUnop %v %T", op, x))
}

// symConv converts a symbolic scalar between basic types.
func symConv(e *explorer, tdst, tsrc types.Type, x value) value {
	db := basicOf(tdst)
	if db == nil {
		panic(unsupported("symConv to %v", tdst))
	}
	dk := normKind(db.Kind())
	switch x := x.(type) {
	case symF:
		switch {
		case db.Kind() == types.Float64:
			return x
		case db.Info()&types.IsInteger != 0:
			// Go: implementation-defined when the truncated value does not
			// fit. Model: fresh unconstrained bit-vector (counted).
			bits := kindBits(dk)
			xt := e.abbrev(x.t, f64)
			// out-of-range results are implementation-defined but a function of
			// the input on a given platform: uninterpreted function of x
			sg := "u"
			if kindSigned(dk) {
				sg = "s"
			}
			ufn := fmt.Sprintf("uf_f2i_%s%d", sg, bits)
			decl := "(declare-fun " + ufn + " (" + f64 + ") " + bvsort(bits) + ")"
			e.sol.declareRaw(ufn, decl)
			if e.crs != nil {
				e.crs.declareRaw(ufn, decl)
			}
			u := "(" + ufn + " " + xt + ")"
			e.stats.ConvUndef++
			var inr, cv string
			if kindSigned(dk) {
				lo := fplit(-math.Ldexp(1, bits-1))
				hi := fplit(math.Ldexp(1, bits-1))
				// trunc(x) in [-2^(b-1), 2^(b-1)-1]  <=>  x > -2^(b-1)-1 && x < 2^(b-1)
				// for b=64 the lower bound -2^63-1 is not representable; x >= -2^63 is equivalent.
				if bits == 64 {
					inr = "(and (fp.geq " + xt + " " + lo + ") (fp.lt " + xt + " " + hi + "))"
				} else {
					lo1 := fplit(-math.Ldexp(1, bits-1) - 1)
					inr = "(and (fp.gt " + xt + " " + lo1 + ") (fp.lt " + xt + " " + hi + "))"
				}
				cv = fmt.Sprintf("((_ fp.to_sbv %d) RTZ %s)", bits, xt)
			} else {
				hi := fplit(math.Ldexp(1, bits))
				inr = "(and (fp.gt " + xt + " " + fplit(-1) + ") (fp.lt " + xt + " " + hi + "))"
				cv = fmt.Sprintf("((_ fp.to_ubv %d) RTZ %s)", bits, xt)
			}
			return symI{"(ite " + inr + " " + cv + " " + u + ")", dk}
		}
	case symI:
		switch {
		case db.Kind() == types.Float64:
			if kindSigned(x.k) {
				return symF{"((_ to_fp 11 53) RNE " + x.t + ")"}
			}
			return symF{"((_ to_fp_unsigned 11 53) RNE " + x.t + ")"}
		case db.Info()&types.IsInteger != 0:
			return symI{resizeBV(x.t, x.k, dk), dk}
		}
	case symB:
		if db.Info()&types.IsBoolean != 0 {
			return x
		}
	}
	panic(unsupported("symConv %v <- %T(%v)", tdst, x, tsrc))
}

// ---- model values ----

// parseModelValue turns a solver value s-expression into a Go value for the
// given sort tag ("f64", "bool", "bvN").
func parseModelValue(sort, s string) (any, error) {
	s = strings.TrimSpace(s)
	switch {
	case sort == "bool":
		return s == "true", nil
	case sort == "f64":
		bits, err := parseFP(s)
		if err != nil {
			return nil, err
		}
		return math.Float64frombits(bits), nil
	case strings.HasPrefix(sort, "bv"):
		return parseBV(s)
	}
	return nil, fmt.Errorf("unknown sort %q", sort)
}

func parseBV(s string) (uint64, error) {
	s = strings.TrimSpace(s)
	switch {
	case strings.HasPrefix(s, "#b"):
		return strconv.ParseUint(s[2:], 2, 64)
	case strings.HasPrefix(s, "#x"):
		return strconv.ParseUint(s[2:], 16, 64)
	case strings.HasPrefix(s, "(_ bv"):
		f := strings.Fields(s[5:])
		return strconv.ParseUint(f[0], 10, 64)
	}
	return 0, fmt.Errorf("bad bv value %q", s)
}

func parseFP(s string) (uint64, error) {
	s = strings.TrimSpace(s)
	if strings.HasPrefix(s, "(fp ") {
		f := strings.Fields(strings.TrimSuffix(s[4:], ")"))
		if len(f) != 3 {
			return 0, fmt.Errorf("bad fp value %q", s)
		}
		sg, e1 := parseBV(f[0])
		ex, e2 := parseBV(f[1])
		mn, e3 := parseBV(f[2])
		if e1 != nil || e2 != nil || e3 != nil {
			return 0, fmt.Errorf("bad fp value %q", s)
		}
		return sg<<63 | ex<<52 | mn, nil
	}
	switch {
	case strings.HasPrefix(s, "(_ +zero"):
		return 0, nil
	case strings.HasPrefix(s, "(_ -zero"):
		return 1 << 63, nil
	case strings.HasPrefix(s, "(_ +oo"):
		return math.Float64bits(math.Inf(1)), nil
	case strings.HasPrefix(s, "(_ -oo"):
		return math.Float64bits(math.Inf(-1)), nil
	case strings.HasPrefix(s, "(_ NaN"):
		return math.Float64bits(math.NaN()), nil
	}
	return 0, fmt.Errorf("bad fp value %q", s)
}
