package symgo

// Model file system for main.go (C18, C05/C07 CLI parts): a map path ->
// (bytes, mode) per explored path. Every os.* call on it is numbered; the
// harness can make the k-th call fail (ENOSPC/EIO/EACCES) or kill the
// process after the k-th call (the path unwinds with a panic the harness
// recovers; no target defers exist on these code paths).

import (
	"fmt"
	"go/types"
	"path/filepath"
	"sort"
	"strings"

	"golang.org/x/tools/txtar"
)

type mfile struct {
	data string
	mode value // uint32 or symI{Uint32}
}

type mhandle struct {
	path       string
	closed     bool
	off        int  // write offset
	appendMode bool // O_APPEND
}

type mfs struct {
	links    map[string]string // symbolic links: name -> target
	umask    value             // uint32 or symI{Uint32}; applied to the mode of created files
	files    map[string]*mfile
	calls    int
	faultAt  int
	faultErr string
	crashAt  int
	tempN    int
	log      []string
	stdin    string
	stderr   strings.Builder
}

type minfo struct {
	name string
	mode value
	size int
}

const zzCrash = "zz-crash: process killed"

func (e *explorer) fs() *mfs {
	if f, ok := e.stubState["fs"].(*mfs); ok {
		return f
	}
	f := &mfs{files: map[string]*mfile{}, links: map[string]string{}, umask: uint32(0), faultAt: -1, crashAt: -1}
	e.stubState["fs"] = f
	return f
}

// step numbers a file-system call; returns an error message if this call is
// the injected fault. done() must be called when the call has taken effect.
func (f *mfs) step(op, path string) string {
	f.calls++
	f.log = append(f.log, fmt.Sprintf("%d:%s %s", f.calls, op, path))
	if f.calls == f.faultAt {
		return op + " " + path + ": " + f.faultErr
	}
	return ""
}

func (f *mfs) done() {
	if f.calls == f.crashAt {
		panic(targetPanic{iface{t: types.Typ[types.String], v: zzCrash}})
	}
}

// resolve follows a symbolic link (one level is all the harnesses create).
func (f *mfs) resolve(p string) string {
	if t, ok := f.links[p]; ok {
		return t
	}
	return p
}

// masked applies the process umask to the permission bits of a new file.
func (f *mfs) masked(perm value) value {
	perm = modeU32(perm)
	if !isSym(perm) && !isSym(f.umask) {
		return perm.(uint32) &^ f.umask.(uint32)
	}
	return symI{"(bvand " + toI(perm, types.Uint32) + " (bvnot " + toI(f.umask, types.Uint32) + "))", types.Uint32}
}

// errWrap builds an error that wraps a std sentinel (errors.Is works on it).
func (i *interpreter) errWrap(msg, sentinel string) value {
	if v, ok := i.sentinels[sentinel].(iface); ok {
		return i.newErr(msg, []iface{v})
	}
	return i.newErr(msg, nil)
}

func (i *interpreter) sentinelOr(name string) value {
	if v, ok := i.sentinels[name]; ok {
		return v
	}
	return i.newErr(name, nil)
}

func fileValue(h *mhandle) value {
	p := new(value)
	*p = structure{h}
	return p
}

func handleOf(v value) *mhandle {
	p, ok := v.(*value)
	if !ok || p == nil {
		panic(targetPanic{"invalid memory address or nil pointer dereference (nil *os.File)"})
	}
	return (*p).(structure)[0].(*mhandle)
}

func bytesOf(v value) string {
	switch v := v.(type) {
	case []value:
		return valuesToString(v)
	case string:
		return v
	}
	return ""
}

func toByteValues(s string) value {
	out := make([]value, len(s))
	for k := 0; k < len(s); k++ {
		out[k] = s[k]
	}
	return out
}

func modeU32(v value) value {
	switch v := v.(type) {
	case symI:
		return symI{resizeBV(v.t, v.k, types.Uint32), types.Uint32}
	}
	return uint32(asUint64(widenAny(v)))
}

func widenAny(v value) value {
	switch x := v.(type) {
	case int:
		return uint64(x)
	case int64:
		return uint64(x)
	case uint32:
		return uint64(x)
	}
	return v
}

func (i *interpreter) fileInfo(name string, f *mfile) value {
	return iface{t: i.stdType("os", "fileStat", true), v: &minfo{name: filepath.Base(name), mode: f.mode, size: len(f.data)}}
}

func init() {
	errv := func(fr *frame, msg string) value { return fr.i.newErr(msg, nil) }
	for k, v := range map[string]externalFn{
		// ---- harness side ----
		".zzFSPath": func(fr *frame, a []value) value { return "/zzfs/" + a[0].(string) },
		".zzFSPut": func(fr *frame, a []value) value {
			fr.i.ex.fs().files[a[0].(string)] = &mfile{data: a[1].(string), mode: modeU32(a[2])}
			return nil
		},
		".zzFSGet": func(fr *frame, a []value) value {
			f, ok := fr.i.ex.fs().files[fr.i.ex.fs().resolve(a[0].(string))]
			if !ok {
				return tuple{"", 0, false}
			}
			var m value
			switch mv := f.mode.(type) {
			case symI:
				m = symI{resizeBV(mv.t, mv.k, types.Int), types.Int}
			default:
				m = int(asUint64(widenAny(mv)))
			}
			return tuple{f.data, m, true}
		},
		".zzFSSymlink": func(fr *frame, a []value) value {
			fr.i.ex.fs().links[a[0].(string)] = a[1].(string)
			return nil
		},
		".zzFSIsLink": func(fr *frame, a []value) value {
			_, ok := fr.i.ex.fs().links[a[0].(string)]
			return ok
		},
		".zzFSUmask": func(fr *frame, a []value) value {
			fr.i.ex.fs().umask = modeU32(a[0])
			return nil
		},
		".zzFSFaultAt": func(fr *frame, a []value) value {
			f := fr.i.ex.fs()
			f.faultAt = int(asInt64(a[0]))
			f.faultErr = []string{"no space left on device", "input/output error", "permission denied"}[int(asInt64(a[1]))%3]
			return nil
		},
		".zzFSCrashAt": func(fr *frame, a []value) value { fr.i.ex.fs().crashAt = int(asInt64(a[0])); return nil },
		".zzFSCalls":   func(fr *frame, a []value) value { return fr.i.ex.fs().calls },
		".zzFSFiles": func(fr *frame, a []value) value {
			var names []string
			for n := range fr.i.ex.fs().files {
				names = append(names, n)
			}
			sort.Strings(names)
			return fromStrSlice(names)
		},
		".zzFSCrashed": func(fr *frame, a []value) value {
			// is the recovered value the model's process-kill marker?
			v := a[0]
			for {
				it, ok := v.(iface)
				if !ok {
					break
				}
				v = it.v
			}
			s, _ := v.(string)
			return s == zzCrash
		},
		".zzCatchExit": func(fr *frame, a []value) value { fr.i.ex.catchExit = a[0].(bool); return nil },
		".zzExited": func(fr *frame, a []value) value {
			v := a[0]
			for {
				it, ok := v.(iface)
				if !ok {
					break
				}
				v = it.v
			}
			if s, ok := v.(string); ok && strings.HasPrefix(s, "zz-exit:") {
				var c int
				fmt.Sscanf(s, "zz-exit:%d", &c)
				return tuple{c, true}
			}
			return tuple{0, false}
		},
		".zzEffects":  func(fr *frame, a []value) value { return fromStrSlice(fr.i.ex.effects) },
		".zzStdin":    func(fr *frame, a []value) value { fr.i.ex.fs().stdin = a[0].(string); return nil },
		".zzStdout":   func(fr *frame, a []value) value { return fr.i.ex.out.String() },
		".zzStderr":   func(fr *frame, a []value) value { return fr.i.ex.fs().stderr.String() },
		".zzExitCode": func(fr *frame, a []value) value { return fr.i.ex.exitCode },
		// ---- os ----
		"os.ReadFile": func(fr *frame, a []value) value {
			f := fr.i.ex.fs()
			p := f.resolve(a[0].(string))
			if m := f.step("open", p); m != "" {
				return tuple{[]value(nil), errv(fr, m)}
			}
			defer f.done()
			mf, ok := f.files[p]
			if !ok {
				return tuple{[]value(nil), fr.i.errWrap("open "+p+": no such file or directory", "io/fs.ErrNotExist")}
			}
			return tuple{toByteValues(mf.data), iface{}}
		},
		"os.CreateTemp": func(fr *frame, a []value) value {
			f := fr.i.ex.fs()
			dir, pat := a[0].(string), a[1].(string)
			if m := f.step("createtemp", dir); m != "" {
				return tuple{(*value)(nil), errv(fr, m)}
			}
			defer f.done()
			f.tempN++
			p := filepath.Join(dir, fmt.Sprintf("%s%dzz", pat, f.tempN))
			f.files[p] = &mfile{mode: f.masked(uint32(0o600))}
			return tuple{fileValue(&mhandle{path: p}), iface{}}
		},
		"os.Create": func(fr *frame, a []value) value {
			f := fr.i.ex.fs()
			p := f.resolve(a[0].(string))
			if m := f.step("create", p); m != "" {
				return tuple{(*value)(nil), errv(fr, m)}
			}
			defer f.done()
			if mf, ok := f.files[p]; ok {
				mf.data = "" // O_TRUNC
			} else {
				f.files[p] = &mfile{mode: f.masked(uint32(0o666))}
			}
			return tuple{fileValue(&mhandle{path: p}), iface{}}
		},
		"os.OpenFile": func(fr *frame, a []value) value {
			f := fr.i.ex.fs()
			p := f.resolve(a[0].(string))
			flag := int(asInt64(a[1]))
			if m := f.step("openfile", p); m != "" {
				return tuple{(*value)(nil), errv(fr, m)}
			}
			defer f.done()
			mf, ok := f.files[p]
			if !ok {
				if flag&0x40 == 0 { // O_CREATE
					return tuple{(*value)(nil), fr.i.errWrap("open "+p+": no such file or directory", "io/fs.ErrNotExist")}
				}
				mf = &mfile{mode: f.masked(a[2])}
				f.files[p] = mf
			} else if flag&0x80 != 0 && flag&0x40 != 0 { // O_EXCL|O_CREATE on an existing file
				return tuple{(*value)(nil), fr.i.errWrap("open "+p+": file exists", "io/fs.ErrExist")}
			}
			if flag&0x200 != 0 { // O_TRUNC
				mf.data = ""
			}
			return tuple{fileValue(&mhandle{path: p, appendMode: flag&0x400 != 0}), iface{}}
		},
		"os.WriteFile": func(fr *frame, a []value) value {
			f := fr.i.ex.fs()
			p := f.resolve(a[0].(string))
			data := bytesOf(a[1])
			if m := f.step("open-trunc", p); m != "" {
				return errv(fr, m)
			}
			mf, ok := f.files[p]
			if ok {
				mf.data = ""
			} else {
				mf = &mfile{mode: f.masked(a[2])}
				f.files[p] = mf
			}
			f.done()
			if m := f.step("write", p); m != "" {
				mf.data = data[:len(data)/2]
				return errv(fr, m)
			}
			mf.data = data
			f.done()
			if m := f.step("close", p); m != "" {
				return errv(fr, m)
			}
			f.done()
			return iface{}
		},
		"(*os.File).Write": func(fr *frame, a []value) value {
			f := fr.i.ex.fs()
			h := handleOf(a[0])
			data := bytesOf(a[1])
			if m := f.step("write", h.path); m != "" {
				if mf := f.files[h.path]; mf != nil {
					h.writeAt(mf, data[:len(data)/2])
				}
				return tuple{len(data) / 2, errv(fr, m)}
			}
			defer f.done()
			if h.closed {
				return tuple{0, fr.i.newErr("write "+h.path+": file already closed", nil)}
			}
			if mf := f.files[h.path]; mf != nil {
				h.writeAt(mf, data)
			}
			return tuple{len(data), iface{}}
		},
		"(*os.File).WriteString": func(fr *frame, a []value) value {
			return externals["(*os.File).Write"](fr, a)
		},
		"(*os.File).Close": func(fr *frame, a []value) value {
			f := fr.i.ex.fs()
			h := handleOf(a[0])
			if m := f.step("close", h.path); m != "" {
				h.closed = true
				return errv(fr, m)
			}
			defer f.done()
			if h.closed {
				return fr.i.newErr("close "+h.path+": file already closed", nil)
			}
			h.closed = true
			return iface{}
		},
		"(*os.File).Sync": func(fr *frame, a []value) value {
			f := fr.i.ex.fs()
			h := handleOf(a[0])
			if m := f.step("fsync", h.path); m != "" {
				return errv(fr, m)
			}
			defer f.done()
			return iface{}
		},
		"(*os.File).Name": func(fr *frame, a []value) value { return handleOf(a[0]).path },
		"(*os.File).Chmod": func(fr *frame, a []value) value {
			f := fr.i.ex.fs()
			h := handleOf(a[0])
			if m := f.step("fchmod", h.path); m != "" {
				return errv(fr, m)
			}
			defer f.done()
			if mf := f.files[h.path]; mf != nil {
				mf.mode = modeU32(a[1])
			}
			return iface{}
		},
		"(*os.File).Stat": func(fr *frame, a []value) value {
			f := fr.i.ex.fs()
			h := handleOf(a[0])
			if m := f.step("fstat", h.path); m != "" {
				return tuple{iface{}, errv(fr, m)}
			}
			defer f.done()
			return tuple{fr.i.fileInfo(h.path, f.files[h.path]), iface{}}
		},
		"os.Chmod": func(fr *frame, a []value) value {
			f := fr.i.ex.fs()
			p := f.resolve(a[0].(string))
			if m := f.step("chmod", p); m != "" {
				return errv(fr, m)
			}
			defer f.done()
			mf, ok := f.files[p]
			if !ok {
				return fr.i.newErr("chmod "+p+": no such file or directory", nil)
			}
			mf.mode = modeU32(a[1])
			return iface{}
		},
		"os.Lstat": func(fr *frame, a []value) value {
			f := fr.i.ex.fs()
			p := a[0].(string)
			if m := f.step("lstat", p); m != "" {
				return tuple{iface{}, errv(fr, m)}
			}
			defer f.done()
			if _, ok := f.links[p]; ok {
				return tuple{fr.i.fileInfo(p, &mfile{mode: uint32(0o777) | uint32(1<<27)}), iface{}} // fs.ModeSymlink
			}
			mf, ok := f.files[p]
			if !ok {
				return tuple{iface{}, fr.i.errWrap("lstat "+p+": no such file or directory", "io/fs.ErrNotExist")}
			}
			return tuple{fr.i.fileInfo(p, mf), iface{}}
		},
		"os.Readlink": func(fr *frame, a []value) value {
			f := fr.i.ex.fs()
			if t, ok := f.links[a[0].(string)]; ok {
				return tuple{t, iface{}}
			}
			return tuple{"", fr.i.newErr("readlink "+a[0].(string)+": invalid argument", nil)}
		},
		"path/filepath.EvalSymlinks": func(fr *frame, a []value) value {
			return tuple{fr.i.ex.fs().resolve(a[0].(string)), iface{}}
		},
		"os.Stat": func(fr *frame, a []value) value {
			f := fr.i.ex.fs()
			p := f.resolve(a[0].(string))
			if m := f.step("stat", p); m != "" {
				return tuple{iface{}, errv(fr, m)}
			}
			defer f.done()
			mf, ok := f.files[p]
			if !ok {
				return tuple{iface{}, fr.i.errWrap("stat "+p+": no such file or directory", "io/fs.ErrNotExist")}
			}
			return tuple{fr.i.fileInfo(p, mf), iface{}}
		},
		"os.Rename": func(fr *frame, a []value) value {
			f := fr.i.ex.fs()
			from, to := a[0].(string), a[1].(string)
			if m := f.step("rename", from+" "+to); m != "" {
				return errv(fr, m)
			}
			defer f.done()
			mf, ok := f.files[from]
			if !ok {
				return fr.i.newErr("rename "+from+" "+to+": no such file or directory", nil)
			}
			delete(f.links, to) // rename replaces the name itself, also when it is a symbolic link
			f.files[to] = mf    // atomic replace (model assumption)
			delete(f.files, from)
			return iface{}
		},
		"os.Remove": func(fr *frame, a []value) value {
			f := fr.i.ex.fs()
			p := a[0].(string)
			if m := f.step("unlink", p); m != "" {
				return errv(fr, m)
			}
			defer f.done()
			if _, ok := f.files[p]; !ok {
				return fr.i.errWrap("remove "+p+": no such file or directory", "io/fs.ErrNotExist")
			}
			delete(f.files, p)
			return iface{}
		},
		"(*os.fileStat).Mode":  func(fr *frame, a []value) value { return a[0].(*minfo).mode },
		"(*os.fileStat).Size":  func(fr *frame, a []value) value { return int64(a[0].(*minfo).size) },
		"(*os.fileStat).Name":  func(fr *frame, a []value) value { return a[0].(*minfo).name },
		"(*os.fileStat).IsDir": func(fr *frame, a []value) value { return false },
		"(io/fs.FileMode).Perm": func(fr *frame, a []value) value {
			if m, ok := a[0].(symI); ok {
				return symI{"(bvand " + m.t + " " + bvlit(0o777, 32) + ")", types.Uint32}
			}
			return uint32(asUint64(widenAny(a[0]))) & 0o777
		},
		"(io/fs.FileMode).IsRegular": func(fr *frame, a []value) value {
			if m, ok := a[0].(uint32); ok {
				return m&(1<<27) == 0
			}
			return true
		},
		"(io/fs.FileMode).Type": func(fr *frame, a []value) value {
			if m, ok := a[0].(uint32); ok {
				return m & (1 << 27)
			}
			return uint32(0)
		},
		"(io/fs.FileMode).IsDir":     func(fr *frame, a []value) value { return false },
		"io.ReadAll": func(fr *frame, a []value) value {
			return tuple{toByteValues(fr.i.ex.fs().stdin), iface{}}
		},
		"fmt.Fprintln": func(fr *frame, a []value) value {
			args, _ := a[1].([]value)
			s := symSprint(fr, args, true)
			writeTo(fr, a[0], s)
			return tuple{len(s), iface{}}
		},
		"fmt.Fprintf": func(fr *frame, a []value) value {
			args, _ := a[2].([]value)
			s := symSprintf(fr, a[1].(string), args, nil)
			writeTo(fr, a[0], s)
			return tuple{len(s), iface{}}
		},
		"fmt.Fprint": func(fr *frame, a []value) value {
			args, _ := a[1].([]value)
			s := symSprint(fr, args, false)
			writeTo(fr, a[0], s)
			return tuple{len(s), iface{}}
		},
		// ---- process environment of pkg/cli ----
		"bufio.NewReader": func(fr *frame, a []value) value {
			p := new(value)
			*p = structure{&opaque{"bufio.Reader"}}
			return p
		},
		"(*bufio.Reader).ReadString": func(fr *frame, a []value) value {
			f := fr.i.ex.fs()
			fr.i.ex.effect("read")
			delim := a[1].(byte)
			k := strings.IndexByte(f.stdin, delim)
			if k < 0 {
				s := f.stdin
				f.stdin = ""
				return tuple{s, fr.i.sentinelOr("io.EOF")}
			}
			s := f.stdin[:k+1]
			f.stdin = f.stdin[k+1:]
			return tuple{s, iface{}}
		},
		"os/exec.Command": func(fr *frame, a []value) value {
			p := new(value)
			*p = zero(fr.i.stdType("os/exec", "Cmd", false))
			return p
		},
		"(*os/exec.Cmd).Run": func(fr *frame, a []value) value { fr.i.ex.effect("exec"); return iface{} },
		"encoding/xml.NewEncoder": func(fr *frame, a []value) value {
			p := new(value)
			*p = structure{a[0]}
			return p
		},
		"(*encoding/xml.Encoder).Indent": func(fr *frame, a []value) value { return nil },
		"(*encoding/xml.Encoder).Encode": func(fr *frame, a []value) value {
			st := (*a[0].(*value)).(structure)
			writeTo(fr, st[0], "<svg/>")
			return iface{}
		},
		"cmp.Or[error]": func(fr *frame, a []value) value {
			vs, _ := a[0].([]value)
			for _, v := range vs {
				if it, ok := v.(iface); ok && it.t != nil {
					return it
				}
			}
			return iface{}
		},
		"math/rand.Seed": func(fr *frame, a []value) value { return nil },
		// ---- path/filepath: pure ----
		"path/filepath.Dir":  func(fr *frame, a []value) value { return filepath.Dir(a[0].(string)) },
		"path/filepath.Base": func(fr *frame, a []value) value { return filepath.Base(a[0].(string)) },
		"path/filepath.Ext":  func(fr *frame, a []value) value { return filepath.Ext(a[0].(string)) },
		"path/filepath.Join": func(fr *frame, a []value) value { return filepath.Join(strSlice(a[0])...) },
		// ---- txtar: exact native bridge ----
		"golang.org/x/tools/txtar.Parse": func(fr *frame, a []value) value {
			ar := txtar.Parse([]byte(bytesOf(a[0])))
			files := make([]value, len(ar.Files))
			for k, f := range ar.Files {
				files[k] = structure{f.Name, toByteValues(string(f.Data))}
			}
			p := new(value)
			*p = structure{toByteValues(string(ar.Comment)), files}
			return p
		},
		"golang.org/x/tools/txtar.Format": func(fr *frame, a []value) value {
			st := (*a[0].(*value)).(structure)
			ar := &txtar.Archive{Comment: []byte(bytesOf(st[0]))}
			fs, _ := st[1].([]value)
			for _, f := range fs {
				fst := f.(structure)
				ar.Files = append(ar.Files, txtar.File{Name: fst[0].(string), Data: []byte(bytesOf(fst[1]))})
			}
			return toByteValues(string(txtar.Format(ar)))
		},
	} {
		if strings.HasPrefix(k, ".zz") {
			externalSuffix[k] = v
		} else {
			externals[k] = wrapExternal(k, v)
		}
	}
}

// writeAt writes data at the handle's offset (the end of the file in append
// mode): bytes of a longer previous content that lie behind the written
// region stay in place.
func (h *mhandle) writeAt(mf *mfile, data string) {
	if h.appendMode || h.off > len(mf.data) {
		h.off = len(mf.data)
	}
	end := h.off + len(data)
	tail := ""
	if end < len(mf.data) {
		tail = mf.data[end:]
	}
	mf.data = mf.data[:h.off] + data + tail
	h.off = end
}
