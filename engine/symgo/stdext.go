package symgo

// The standard library is native, not interpreted. Three classes:
//  1. exact native bridges (concrete arguments),
//  2. symbolic models (FP theory terms, uninterpreted functions, atoms),
//  3. nondeterministic stubs with a contract (rand, time).

import (
	"fmt"
	"go/types"
	"math"
	"runtime"
	"strconv"
	"strings"
	"unicode"
	"unicode/utf8"

	"golang.org/x/tools/go/ssa"
)

// nerr is the payload of error values created by errors.New / fmt.Errorf
// inside the engine. Pointer identity = Go's identity of those errors.
type nerr struct {
	msg   string
	wraps []iface
}

func lookupMethodByName(i *interpreter, t types.Type, name string) *ssa.Function {
	ms := i.prog.MethodSets.MethodSet(t)
	for k := 0; k < ms.Len(); k++ {
		sel := ms.At(k)
		if sel.Obj().Name() == name {
			return i.prog.MethodValue(sel)
		}
	}
	return nil
}

func (i *interpreter) stdType(pkg, name string, ptr bool) types.Type {
	p := i.prog.ImportedPackage(pkg)
	if p == nil {
		panic(unsupported("std package %s not loaded", pkg))
	}
	t := p.Pkg.Scope().Lookup(name).Type()
	if ptr {
		return types.NewPointer(t)
	}
	return t
}

func (i *interpreter) newErr(msg string, wraps []iface) value {
	switch len(wraps) {
	case 0:
		return iface{t: i.stdType("errors", "errorString", true), v: &nerr{msg: msg}}
	case 1:
		return iface{t: i.stdType("fmt", "wrapError", true), v: &nerr{msg: msg, wraps: wraps}}
	}
	return iface{t: i.stdType("fmt", "wrapErrors", true), v: &nerr{msg: msg, wraps: wraps}}
}

// errString returns err.Error() of an interpreter error value.
func errString(i *interpreter, v iface) string {
	if v.t == nil {
		return "<nil>"
	}
	if ne, ok := v.v.(*nerr); ok {
		return ne.msg
	}
	if m := lookupMethodByName(i, v.t, "Error"); m != nil {
		return call(i, nil, 0, m, []value{v.v}).(string)
	}
	return toString(v.v)
}

func comparableVal(v value) bool {
	switch v := v.(type) {
	case []value, map[value]value, *hashmap, *closure, *ssa.Function:
		return false
	case structure:
		for _, f := range v {
			if !comparableVal(f) {
				return false
			}
		}
	case array:
		for _, f := range v {
			if !comparableVal(f) {
				return false
			}
		}
	case iface:
		return v.t == nil || comparableVal(v.v)
	}
	return true
}

func errUnwrap(i *interpreter, v iface) []iface {
	if ne, ok := v.v.(*nerr); ok {
		return ne.wraps
	}
	m := lookupMethodByName(i, v.t, "Unwrap")
	if m == nil {
		return nil
	}
	r := call(i, nil, 0, m, []value{v.v})
	switch r := r.(type) {
	case iface:
		if r.t == nil {
			return nil
		}
		return []iface{r}
	case []value:
		var out []iface
		for _, x := range r {
			if xi := x.(iface); xi.t != nil {
				out = append(out, xi)
			}
		}
		return out
	}
	return nil
}

func errorsIs(i *interpreter, err, target iface) bool {
	if err.t == nil || target.t == nil {
		return err.t == nil && target.t == nil
	}
	if types.Identical(err.t, target.t) && comparableVal(err.v) && comparableVal(target.v) && equals(err.t, err.v, target.v) {
		return true
	}
	if _, ok := err.v.(*nerr); !ok {
		if m := lookupMethodByName(i, err.t, "Is"); m != nil && m.Signature.Params().Len() == 1 {
			if call(i, nil, 0, m, []value{err.v, target}).(bool) {
				return true
			}
		}
	}
	for _, w := range errUnwrap(i, err) {
		if errorsIs(i, w, target) {
			return true
		}
	}
	return false
}

// errorsAs implements errors.As(err, target) where target is a pointer to
// a variable of concrete (non-interface) type or of interface type error.
func errorsAs(i *interpreter, err iface, target iface) bool {
	pt, ok := target.t.Underlying().(*types.Pointer)
	if !ok || target.v == nil {
		panic(targetPanic{"errors: target must be a non-nil pointer"})
	}
	slot := target.v.(*value)
	want := pt.Elem()
	var walk func(e iface) bool
	walk = func(e iface) bool {
		if e.t == nil {
			return false
		}
		if _, isIface := want.Underlying().(*types.Interface); isIface {
			if types.AssignableTo(e.t, want) {
				*slot = e
				return true
			}
		} else if types.Identical(e.t, want) {
			*slot = e.v
			return true
		}
		for _, w := range errUnwrap(i, e) {
			if walk(w) {
				return true
			}
		}
		return false
	}
	return walk(err)
}

// ---- Sprintf with symbolic arguments ----

type strer struct{ s string }

func (s strer) String() string { return s.s }

type errer struct{ s string }

func (s errer) Error() string { return s.s }

func toNativeArg(i *interpreter, v value) any {
	switch v := v.(type) {
	case iface:
		if v.t == nil {
			return nil
		}
		if _, ok := v.v.(*nerr); ok {
			return errer{errString(i, v)}
		}
		if m := lookupMethodByName(i, v.t, "Error"); m != nil {
			return errer{errString(i, v)}
		}
		if m := lookupMethodByName(i, v.t, "String"); m != nil && m.Signature.Params().Len() == 0 {
			if s, ok := call(i, nil, 0, m, []value{v.v}).(string); ok {
				return strer{s}
			}
		}
		return toNativeArg(i, v.v)
	case bool, int, int64, float64, string, int32, uint16, uint8, uint64, uint32, uint, int8, int16, float32, uintptr:
		return v
	case []value:
		out := make([]any, len(v))
		for k, x := range v {
			out[k] = toNativeArg(i, x)
		}
		return out
	case symF, symI, symB, symStr:
		return v
	case *value:
		if v == nil {
			return nil
		}
		return fmt.Sprintf("%p", v)
	}
	return strer{toString(v)}
}

// symSprintf formats like fmt.Sprintf; symbolic scalar arguments become
// atoms. wraps collects the operands of %w verbs.
func symSprintf(fr *frame, format string, args []value, wraps *[]iface) string {
	i := fr.i
	var sb strings.Builder
	argi := 0
	for k := 0; k < len(format); {
		c := format[k]
		if c != '%' {
			sb.WriteByte(c)
			k++
			continue
		}
		j := k + 1
		for j < len(format) && strings.IndexByte("+-# 0123456789.*[]", format[j]) >= 0 {
			j++
		}
		if j >= len(format) {
			sb.WriteString(format[k:])
			break
		}
		verb := format[j]
		spec := format[k : j+1]
		k = j + 1
		if verb == '%' {
			sb.WriteByte('%')
			continue
		}
		if strings.ContainsAny(spec, "*[") {
			panic(unsupported("Sprintf spec %q", spec))
		}
		if argi >= len(args) {
			sb.WriteString(fmt.Sprintf(spec))
			continue
		}
		a := args[argi]
		argi++
		if verb == 'w' {
			if wraps != nil {
				if ai, ok := a.(iface); ok && ai.t != nil {
					*wraps = append(*wraps, ai)
				}
			}
			spec = spec[:len(spec)-1] + "v"
			verb = 'v'
		}
		// a pointer printed by reflection shows addresses: every printed
		// address is a distinct, run-dependent value
		if ai, ok := a.(iface); ok && ai.t != nil && printsAddress(i, ai.t, verb) {
			fr.i.ex.addrN++
			sb.WriteString(fmt.Sprintf("&{0xc%09x}", 0x1000+16*fr.i.ex.addrN))
			continue
		}
		// unwrap interface for symbolic payloads
		raw := a
		if ai, ok := a.(iface); ok && ai.t != nil {
			raw = ai.v
			// named numeric types with methods keep their methods: only unwrap plain symbolic payloads
			if isSym(raw) || isSymStr(raw) {
				if m := lookupMethodByName(i, ai.t, "String"); m != nil && m.Blocks != nil && m.Signature.Params().Len() == 0 && (verb == 'v' || verb == 's') {
					s := call(i, nil, 0, m, []value{raw})
					if ss, ok := s.(string); ok {
						sb.WriteString(ss)
						continue
					}
					panic(unsupported("String() on symbolic value returned %T", s))
				}
				if m := lookupMethodByName(i, ai.t, "Error"); m != nil && m.Blocks != nil {
					s := call(i, nil, 0, m, []value{raw})
					if ss, ok := s.(string); ok {
						sb.WriteString(ss)
						continue
					}
					panic(unsupported("Error() on symbolic value returned %T", s))
				}
			}
		}
		switch x := raw.(type) {
		case symF:
			if spec == "%v" || spec == "%g" {
				sb.WriteString(fr.i.ex.atomString(x.t, f64, "g-1"))
			} else if spec == "%f" {
				sb.WriteString(fr.i.ex.atomString(x.t, f64, "f6"))
			} else {
				// other verbs (%d, %s, %5.2f ...): concretise the number (counted)
				sb.WriteString(fmt.Sprintf(spec, fr.i.ex.concretizeF(x)))
			}
			continue
		case symI:
			if spec == "%v" || spec == "%d" {
				sb.WriteString(fr.i.ex.atomString(x.t, bvsort(kindBits(x.k)), intFmtKey(x.k)))
			} else {
				panic(unsupported("Sprintf %q of symbolic int", spec))
			}
			continue
		case symB:
			// fork on the value, then format natively
			raw = fr.i.ex.decide(x.t, "Sprintf bool")
			sb.WriteString(fmt.Sprintf(spec, raw))
			continue
		case symStr:
			panic(unsupported("Sprintf of rune-vector string"))
		}
		na := toNativeArg(i, a)
		if s, ok := na.(string); ok && hasAtom(s) {
			if spec == "%v" || spec == "%s" {
				sb.WriteString(s)
				continue
			}
			// other verbs: concretise the numbers inside the string (counted)
			sb.WriteString(fmt.Sprintf(spec, fr.i.ex.concretizeAtoms(s)))
			continue
		}
		if s, ok := na.(strer); ok && hasAtom(s.s) || func() bool { e, ok := na.(errer); return ok && hasAtom(e.s) }() {
			if spec == "%v" || spec == "%s" {
				sb.WriteString(fmt.Sprint(na))
				continue
			}
			panic(unsupported("Sprintf %q of value with atoms", spec))
		}
		sb.WriteString(fmt.Sprintf(spec, na))
	}
	if argi < len(args) {
		sb.WriteString("%!(EXTRA)")
	}
	return sb.String()
}

func intFmtKey(k types.BasicKind) string {
	if kindSigned(k) {
		return fmt.Sprintf("d%d", kindBits(k))
	}
	return fmt.Sprintf("u%d", kindBits(k))
}

func symSprint(fr *frame, args []value, ln bool) string {
	var sb strings.Builder
	for k, a := range args {
		if k > 0 && ln {
			sb.WriteByte(' ')
		}
		sb.WriteString(symSprintf(fr, "%v", []value{a}, nil))
	}
	if ln {
		sb.WriteByte('\n')
	}
	return sb.String()
}

// ---- helpers ----

func strSlice(v value) []string {
	vs, _ := v.([]value)
	out := make([]string, len(vs))
	for k, a := range vs {
		out[k] = a.(string)
	}
	return out
}

func fromStrSlice(ss []string) value {
	out := make([]value, len(ss))
	for k, s := range ss {
		out[k] = s
	}
	return out
}

func noAtoms(name string, a ...value) {
	for _, x := range a {
		switch x := x.(type) {
		case string:
			if hasAtom(x) {
				panic(unsupported("%s on string with atoms", name))
			}
		case symStr:
			panic(unsupported("%s on rune-vector string", name))
		case []value:
			noAtoms(name, x...)
		}
	}
}

func str1(name string, f func(string) value) externalFn {
	return func(fr *frame, a []value) value { noAtoms(name, a...); return f(a[0].(string)) }
}

func str2(name string, f func(a, b string) value) externalFn {
	return func(fr *frame, a []value) value { noAtoms(name, a...); return f(a[0].(string), a[1].(string)) }
}

func (e *explorer) uf(name string, args ...string) string {
	decl := "(declare-fun " + name + " ("
	for range args {
		decl += f64 + " "
	}
	decl += ") " + f64 + ")"
	e.sol.declareRaw(name, decl)
	if e.crs != nil {
		e.crs.declareRaw(name, decl)
	}
	return "(" + name + " " + strings.Join(args, " ") + ")"
}

func fmath1(name string, native func(float64) float64, model func(e *explorer, x string) string) externalFn {
	return func(fr *frame, a []value) value {
		if x, ok := a[0].(symF); ok {
			e := fr.i.ex
			xt := e.abbrev(x.t, f64)
			if model == nil {
				return symF{e.uf("uf_"+name, xt)}
			}
			return symF{model(e, xt)}
		}
		return native(a[0].(float64))
	}
}

func fmath2(name string, native func(x, y float64) float64, model func(e *explorer, x, y string) string) externalFn {
	return func(fr *frame, a []value) value {
		if isSym(a[0]) || isSym(a[1]) {
			e := fr.i.ex
			xt, yt := e.abbrev(toF(a[0]), f64), e.abbrev(toF(a[1]), f64)
			if model == nil {
				return symF{e.uf("uf_"+name, xt, yt)}
			}
			return symF{model(e, xt, yt)}
		}
		return native(a[0].(float64), a[1].(float64))
	}
}

const fpNaN = "(_ NaN 11 53)"
const fpNegInf = "(_ -oo 11 53)"
const fpPosInf = "(_ +oo 11 53)"

func builderBuf(a value) (*value, structure) {
	p := a.(*value)
	st := (*p).(structure)
	return p, st
}

func bytesToValues(buf []value, s string) []value {
	for k := 0; k < len(s); k++ {
		buf = append(buf, s[k])
	}
	return buf
}

func valuesToString(buf []value) string {
	bs := make([]byte, len(buf))
	for k, b := range buf {
		bs[k] = b.(byte)
	}
	return string(bs)
}

// wrapExternal converts Go panics raised by native code: a failed type
// assertion inside a bridge means "the engine cannot model this call"
// (never a target panic); any other native panic is the panic the real
// std function raises (e.g. rand.Int31n, strings.Repeat) = a host panic.
func wrapExternal(name string, f externalFn) externalFn {
	return func(fr *frame, a []value) (res value) {
		defer func() {
			if r := recover(); r != nil {
				if isEngineControl(r) {
					panic(r)
				}
				if _, ok := r.(targetPanic); ok {
					panic(r)
				}
				if re, ok := r.(runtime.Error); ok {
					if _, ok := re.(*runtime.TypeAssertionError); ok {
						panic(unsupported("external %s: %v", name, re))
					}
					if strings.Contains(re.Error(), "nil pointer") || strings.Contains(re.Error(), "index out of range") {
						panic(unsupported("external %s: %v", name, re))
					}
				}
				panic(targetPanic{iface{fr.i.runtimeErrorString, fmt.Sprint(r)}})
			}
		}()
		return f(fr, a)
	}
}

func initStdGlobals(i *interpreter) {
	p := i.prog.ImportedPackage("os")
	if p == nil {
		return
	}
	// sentinel errors of the standard library are distinct values (their
	// packages' initialisers are not run)
	sentinels := map[string]value{}
	for _, pn := range []struct{ pkg, name, alias string }{
		{"io/fs", "ErrInvalid", ""}, {"io/fs", "ErrPermission", ""}, {"io/fs", "ErrExist", ""}, {"io/fs", "ErrNotExist", ""}, {"io/fs", "ErrClosed", ""},
		{"os", "ErrInvalid", "io/fs.ErrInvalid"}, {"os", "ErrPermission", "io/fs.ErrPermission"}, {"os", "ErrExist", "io/fs.ErrExist"},
		{"os", "ErrNotExist", "io/fs.ErrNotExist"}, {"os", "ErrClosed", "io/fs.ErrClosed"},
		{"io", "EOF", ""}, {"io", "ErrUnexpectedEOF", ""},
	} {
		sp := i.prog.ImportedPackage(pn.pkg)
		if sp == nil {
			continue
		}
		g, ok := sp.Members[pn.name].(*ssa.Global)
		if !ok {
			continue
		}
		cell, ok := i.globals[g]
		if !ok {
			continue
		}
		key := pn.pkg + "." + pn.name
		if pn.alias != "" {
			if v, ok := sentinels[pn.alias]; ok {
				*cell = v
				continue
			}
		}
		v := i.newErr(pn.name, nil)
		sentinels[key] = v
		*cell = v
	}
	i.sentinels = sentinels
	for _, n := range []string{"Stdin", "Stdout", "Stderr"} {
		if g, ok := p.Members[n].(*ssa.Global); ok {
			if cell, ok := i.globals[g]; ok {
				*cell = fileValue(&mhandle{path: "/dev/" + strings.ToLower(n)})
			}
		}
	}
}

// writeTo appends s to the writer w (an interface value): the process's
// stdout/stderr, a *bytes.Buffer or a *strings.Builder.
func writeTo(fr *frame, w value, s string) {
	it, ok := w.(iface)
	if !ok || it.t == nil {
		panic(unsupported("Fprint to nil writer"))
	}
	switch it.t.String() {
	case "*os.File":
		h := handleOf(it.v)
		switch h.path {
		case "/dev/stdout":
			fr.i.ex.stdout(s)
		case "/dev/stderr":
			fr.i.ex.fs().stderr.WriteString(s)
		default:
			externals["(*os.File).Write"](fr, []value{it.v, s})
		}
	case "*bytes.Buffer":
		externals["(*bytes.Buffer).WriteString"](fr, []value{it.v, s})
	case "*strings.Builder":
		externals["(*strings.Builder).WriteString"](fr, []value{it.v, s})
	default:
		if m := lookupMethodByName(fr.i, it.t, "Write"); m != nil && m.Blocks != nil {
			call(fr.i, nil, 0, m, []value{it.v, toByteValues(s)})
			return
		}
		panic(unsupported("Fprint to writer of type %s", it.t))
	}
}

func init() {
	for k, v := range map[string]externalFn{
		// --- fmt ---
		"fmt.Sprintf": func(fr *frame, a []value) value {
			args, _ := a[1].([]value)
			return symSprintf(fr, a[0].(string), args, nil)
		},
		"fmt.Errorf": func(fr *frame, a []value) value {
			args, _ := a[1].([]value)
			var wraps []iface
			msg := symSprintf(fr, a[0].(string), args, &wraps)
			return fr.i.newErr(msg, wraps)
		},
		"fmt.Sprint": func(fr *frame, a []value) value {
			args, _ := a[0].([]value)
			// fmt.Sprint adds spaces between operands when neither is a string
			var sb strings.Builder
			prevStr := true
			for k, x := range args {
				isStr := false
				if xi, ok := x.(iface); ok {
					_, isStr = xi.v.(string)
				}
				if k > 0 && !isStr && !prevStr {
					sb.WriteByte(' ')
				}
				sb.WriteString(symSprintf(fr, "%v", []value{x}, nil))
				prevStr = isStr
			}
			return sb.String()
		},
		"fmt.Sprintln": func(fr *frame, a []value) value {
			args, _ := a[0].([]value)
			return symSprint(fr, args, true)
		},
		"fmt.Println": func(fr *frame, a []value) value {
			args, _ := a[0].([]value)
			s := symSprint(fr, args, true)
			fr.i.ex.stdout(s)
			return tuple{len(s), iface{}}
		},
		"fmt.Print": func(fr *frame, a []value) value {
			args, _ := a[0].([]value)
			s := symSprint(fr, args, false)
			fr.i.ex.stdout(s)
			return tuple{len(s), iface{}}
		},
		"fmt.Printf": func(fr *frame, a []value) value {
			args, _ := a[1].([]value)
			s := symSprintf(fr, a[0].(string), args, nil)
			fr.i.ex.stdout(s)
			return tuple{len(s), iface{}}
		},
		// --- errors ---
		"errors.New": func(fr *frame, a []value) value { return fr.i.newErr(a[0].(string), nil) },
		"errors.Is": func(fr *frame, a []value) value {
			return errorsIs(fr.i, a[0].(iface), a[1].(iface))
		},
		"errors.As": func(fr *frame, a []value) value {
			return errorsAs(fr.i, a[0].(iface), a[1].(iface))
		},
		"errors.Unwrap": func(fr *frame, a []value) value {
			ws := errUnwrap(fr.i, a[0].(iface))
			if len(ws) == 1 {
				return ws[0]
			}
			return iface{}
		},
		"(*errors.errorString).Error": func(fr *frame, a []value) value { return a[0].(*nerr).msg },
		"(*fmt.wrapError).Error":      func(fr *frame, a []value) value { return a[0].(*nerr).msg },
		"(*fmt.wrapErrors).Error":     func(fr *frame, a []value) value { return a[0].(*nerr).msg },
		"(*fmt.wrapError).Unwrap":     func(fr *frame, a []value) value { return a[0].(*nerr).wraps[0] },
		"(*fmt.wrapErrors).Unwrap": func(fr *frame, a []value) value {
			var out []value
			for _, w := range a[0].(*nerr).wraps {
				out = append(out, w)
			}
			return out
		},
		// --- strings ---
		"strings.Join": func(fr *frame, a []value) value {
			// atoms survive Join (pure concatenation)
			return strings.Join(strSlice(a[0]), a[1].(string))
		},
		"strings.Split":     str2("strings.Split", func(a, b string) value { return fromStrSlice(strings.Split(a, b)) }),
		"strings.Fields":    str1("strings.Fields", func(a string) value { return fromStrSlice(strings.Fields(a)) }),
		"strings.HasPrefix": str2("strings.HasPrefix", func(a, b string) value { return strings.HasPrefix(a, b) }),
		"strings.HasSuffix": str2("strings.HasSuffix", func(a, b string) value { return strings.HasSuffix(a, b) }),
		"strings.Contains":  str2("strings.Contains", func(a, b string) value { return strings.Contains(a, b) }),
		"strings.ContainsRune": func(fr *frame, a []value) value {
			noAtoms("strings.ContainsRune", a[0])
			return strings.ContainsRune(a[0].(string), a[1].(rune))
		},
		"strings.ContainsAny": str2("strings.ContainsAny", func(a, b string) value { return strings.ContainsAny(a, b) }),
		"strings.IndexAny":    str2("strings.IndexAny", func(a, b string) value { return strings.IndexAny(a, b) }),
		"strings.Title":       str1("strings.Title", func(a string) value { return strings.Title(a) }),
		"strings.Index":       str2("strings.Index", func(a, b string) value { return strings.Index(a, b) }),
		"strings.LastIndex":   str2("strings.LastIndex", func(a, b string) value { return strings.LastIndex(a, b) }),
		"strings.TrimSpace":   str1("strings.TrimSpace", func(a string) value { return strings.TrimSpace(a) }),
		"strings.Trim":        str2("strings.Trim", func(a, b string) value { return strings.Trim(a, b) }),
		"strings.TrimLeft":    str2("strings.TrimLeft", func(a, b string) value { return strings.TrimLeft(a, b) }),
		"strings.TrimRight":   str2("strings.TrimRight", func(a, b string) value { return strings.TrimRight(a, b) }),
		"strings.TrimPrefix":  str2("strings.TrimPrefix", func(a, b string) value { return strings.TrimPrefix(a, b) }),
		"strings.TrimSuffix":  str2("strings.TrimSuffix", func(a, b string) value { return strings.TrimSuffix(a, b) }),
		"strings.ToUpper":     str1("strings.ToUpper", func(a string) value { return strings.ToUpper(a) }),
		"strings.ToLower":     str1("strings.ToLower", func(a string) value { return strings.ToLower(a) }),
		"strings.Count":       str2("strings.Count", func(a, b string) value { return strings.Count(a, b) }),
		"strings.EqualFold":   str2("strings.EqualFold", func(a, b string) value { return strings.EqualFold(a, b) }),
		"strings.Repeat": func(fr *frame, a []value) value {
			noAtoms("strings.Repeat", a[0])
			n := fr.i.ex.concreteSize(a[1], "strings.Repeat count")
			if n < 0 {
				panic(targetPanic{iface{fr.i.runtimeErrorString, "strings: negative Repeat count"}})
			}
			if n*int64(len(a[0].(string))) > maxAlloc {
				panic(targetPanic{iface{fr.i.runtimeErrorString, "strings: Repeat output length overflow / out of memory"}})
			}
			return strings.Repeat(a[0].(string), int(n))
		},
		"strings.ReplaceAll": func(fr *frame, a []value) value {
			noAtoms("strings.ReplaceAll", a...)
			return strings.ReplaceAll(a[0].(string), a[1].(string), a[2].(string))
		},
		"strings.Replace": func(fr *frame, a []value) value {
			noAtoms("strings.Replace", a[0], a[1], a[2])
			return strings.Replace(a[0].(string), a[1].(string), a[2].(string), int(asInt64(a[3])))
		},
		"strings.SplitN": func(fr *frame, a []value) value {
			noAtoms("strings.SplitN", a[0], a[1])
			return fromStrSlice(strings.SplitN(a[0].(string), a[1].(string), int(asInt64(a[2]))))
		},
		"strings.Cut": func(fr *frame, a []value) value {
			noAtoms("strings.Cut", a...)
			b, c, ok := strings.Cut(a[0].(string), a[1].(string))
			return tuple{b, c, ok}
		},
		"strings.IndexByte": func(fr *frame, a []value) value {
			noAtoms("strings.IndexByte", a[0])
			return strings.IndexByte(a[0].(string), a[1].(byte))
		},
		"strings.IndexRune": func(fr *frame, a []value) value {
			noAtoms("strings.IndexRune", a[0])
			return strings.IndexRune(a[0].(string), a[1].(rune))
		},
		"strings.NewReplacer": nil,
		"(*strings.Builder).WriteString": func(fr *frame, a []value) value {
			_, st := builderBuf(a[0])
			buf, _ := st[1].([]value)
			st[1] = bytesToValues(buf, a[1].(string))
			return tuple{len(a[1].(string)), iface{}}
		},
		"(*strings.Builder).WriteByte": func(fr *frame, a []value) value {
			_, st := builderBuf(a[0])
			buf, _ := st[1].([]value)
			st[1] = append(buf, a[1].(byte))
			return iface{}
		},
		"(*strings.Builder).WriteRune": func(fr *frame, a []value) value {
			_, st := builderBuf(a[0])
			buf, _ := st[1].([]value)
			s := string(a[1].(rune))
			st[1] = bytesToValues(buf, s)
			return tuple{len(s), iface{}}
		},
		"(*strings.Builder).Write": func(fr *frame, a []value) value {
			_, st := builderBuf(a[0])
			buf, _ := st[1].([]value)
			src, _ := a[1].([]value)
			st[1] = append(buf, src...)
			return tuple{len(src), iface{}}
		},
		"(*strings.Builder).String": func(fr *frame, a []value) value {
			_, st := builderBuf(a[0])
			buf, _ := st[1].([]value)
			return valuesToString(buf)
		},
		"(*strings.Builder).Len": func(fr *frame, a []value) value {
			_, st := builderBuf(a[0])
			buf, _ := st[1].([]value)
			return len(buf)
		},
		"(*strings.Builder).Reset": func(fr *frame, a []value) value {
			_, st := builderBuf(a[0])
			st[1] = []value(nil)
			return nil
		},
		"(*strings.Builder).Grow": func(fr *frame, a []value) value { return nil },
		// bytes.Buffer: struct{buf []byte; off int; lastRead readOp}
		"(*bytes.Buffer).WriteString": func(fr *frame, a []value) value {
			_, st := builderBuf(a[0])
			buf, _ := st[0].([]value)
			st[0] = bytesToValues(buf, a[1].(string))
			return tuple{len(a[1].(string)), iface{}}
		},
		"(*bytes.Buffer).Write": func(fr *frame, a []value) value {
			_, st := builderBuf(a[0])
			buf, _ := st[0].([]value)
			src, _ := a[1].([]value)
			st[0] = append(buf, src...)
			return tuple{len(src), iface{}}
		},
		"(*bytes.Buffer).WriteByte": func(fr *frame, a []value) value {
			_, st := builderBuf(a[0])
			buf, _ := st[0].([]value)
			st[0] = append(buf, a[1].(byte))
			return iface{}
		},
		"(*bytes.Buffer).WriteRune": func(fr *frame, a []value) value {
			_, st := builderBuf(a[0])
			buf, _ := st[0].([]value)
			s := string(a[1].(rune))
			st[0] = bytesToValues(buf, s)
			return tuple{len(s), iface{}}
		},
		"(*bytes.Buffer).String": func(fr *frame, a []value) value {
			if a[0].(*value) == nil {
				return "<nil>"
			}
			_, st := builderBuf(a[0])
			buf, _ := st[0].([]value)
			off := int(asInt64(st[1]))
			return valuesToString(buf[off:])
		},
		"(*bytes.Buffer).Bytes": func(fr *frame, a []value) value {
			_, st := builderBuf(a[0])
			buf, _ := st[0].([]value)
			off := int(asInt64(st[1]))
			return buf[off:]
		},
		"(*bytes.Buffer).Len": func(fr *frame, a []value) value {
			_, st := builderBuf(a[0])
			buf, _ := st[0].([]value)
			return len(buf) - int(asInt64(st[1]))
		},
		"(*bytes.Buffer).Reset": func(fr *frame, a []value) value {
			_, st := builderBuf(a[0])
			st[0] = []value(nil)
			st[1] = 0
			return nil
		},
		// --- strconv ---
		"strconv.FormatFloat": func(fr *frame, a []value) value {
			fb, prec, bs := a[1].(byte), int(asInt64(a[2])), int(asInt64(a[3]))
			if x, ok := a[0].(symF); ok {
				if bs != 64 {
					panic(unsupported("FormatFloat bitSize %d", bs))
				}
				return fr.i.ex.atomString(x.t, f64, fmt.Sprintf("%c%d", fb, prec))
			}
			return strconv.FormatFloat(a[0].(float64), fb, prec, bs)
		},
		"strconv.Itoa": func(fr *frame, a []value) value {
			if x, ok := a[0].(symI); ok {
				return fr.i.ex.atomString(x.t, bvsort(kindBits(x.k)), intFmtKey(x.k))
			}
			return strconv.Itoa(a[0].(int))
		},
		"strconv.FormatInt": func(fr *frame, a []value) value {
			if x, ok := a[0].(symI); ok && asInt64(a[1]) == 10 {
				return fr.i.ex.atomString(x.t, bvsort(64), "d64")
			}
			return strconv.FormatInt(a[0].(int64), int(asInt64(a[1])))
		},
		"strconv.FormatUint": func(fr *frame, a []value) value {
			if x, ok := a[0].(symI); ok && asInt64(a[1]) == 10 {
				return fr.i.ex.atomString(x.t, bvsort(64), "u64")
			}
			return strconv.FormatUint(a[0].(uint64), int(asInt64(a[1])))
		},
		"strconv.FormatBool": func(fr *frame, a []value) value {
			if x, ok := a[0].(symB); ok {
				if fr.i.ex.decide(x.t, "FormatBool") {
					return "true"
				}
				return "false"
			}
			return strconv.FormatBool(a[0].(bool))
		},
		"strconv.Quote": str1("strconv.Quote", func(a string) value { return strconv.Quote(a) }),
		"strconv.Unquote": func(fr *frame, a []value) value {
			if _, ok := a[0].(symStr); ok {
				// nondeterministic stub: any string, error or not
				e := fr.i.ex
				if e.choose(2, nil, "unquote") == 0 {
					return tuple{"", fr.i.newErr("invalid syntax", nil)}
				}
				return tuple{"\x00U", iface{}}
			}
			noAtoms("strconv.Unquote", a[0])
			s, err := strconv.Unquote(a[0].(string))
			if err != nil {
				return tuple{s, fr.i.newErr(err.Error(), nil)}
			}
			return tuple{s, iface{}}
		},
		"strconv.ParseFloat": func(fr *frame, a []value) value {
			noAtoms("strconv.ParseFloat", a[0])
			f, err := strconv.ParseFloat(a[0].(string), int(asInt64(a[1])))
			if err != nil {
				return tuple{f, fr.i.newErr(err.Error(), nil)}
			}
			return tuple{f, iface{}}
		},
		"strconv.ParseBool": func(fr *frame, a []value) value {
			noAtoms("strconv.ParseBool", a[0])
			b, err := strconv.ParseBool(a[0].(string))
			if err != nil {
				return tuple{b, fr.i.newErr(err.Error(), nil)}
			}
			return tuple{b, iface{}}
		},
		"strconv.Atoi": func(fr *frame, a []value) value {
			noAtoms("strconv.Atoi", a[0])
			n, err := strconv.Atoi(a[0].(string))
			if err != nil {
				return tuple{n, fr.i.newErr(err.Error(), nil)}
			}
			return tuple{n, iface{}}
		},
		"strconv.ParseInt": func(fr *frame, a []value) value {
			noAtoms("strconv.ParseInt", a[0])
			n, err := strconv.ParseInt(a[0].(string), int(asInt64(a[1])), int(asInt64(a[2])))
			if err != nil {
				return tuple{n, fr.i.newErr(err.Error(), nil)}
			}
			return tuple{n, iface{}}
		},
		// --- unicode ---
		"unicode.IsLetter": func(fr *frame, a []value) value {
			if x, ok := a[0].(symI); ok {
				return fr.i.ex.runeClass(x, "IsLetter", unicode.IsLetter)
			}
			return unicode.IsLetter(a[0].(rune))
		},
		"unicode.IsDigit": func(fr *frame, a []value) value {
			if x, ok := a[0].(symI); ok {
				return fr.i.ex.runeClass(x, "IsDigit", unicode.IsDigit)
			}
			return unicode.IsDigit(a[0].(rune))
		},
		"unicode.IsSpace": func(fr *frame, a []value) value {
			if x, ok := a[0].(symI); ok {
				return fr.i.ex.runeClass(x, "IsSpace", unicode.IsSpace)
			}
			return unicode.IsSpace(a[0].(rune))
		},
		"unicode.IsUpper": func(fr *frame, a []value) value { return unicode.IsUpper(a[0].(rune)) },
		"unicode.IsLower": func(fr *frame, a []value) value { return unicode.IsLower(a[0].(rune)) },
		"unicode.ToUpper": func(fr *frame, a []value) value { return unicode.ToUpper(a[0].(rune)) },
		"unicode.ToLower": func(fr *frame, a []value) value { return unicode.ToLower(a[0].(rune)) },
		"unicode/utf8.RuneCountInString": func(fr *frame, a []value) value {
			if s, ok := a[0].(symStr); ok {
				return len(s.r)
			}
			noAtoms("utf8.RuneCountInString", a[0])
			return utf8.RuneCountInString(a[0].(string))
		},
		"unicode/utf8.RuneLen":     func(fr *frame, a []value) value { return utf8.RuneLen(a[0].(rune)) },
		"unicode/utf8.ValidString": str1("utf8.ValidString", func(a string) value { return utf8.ValidString(a) }),
		// --- math: FP-theory models ---
		"math.Abs":   fmath1("Abs", math.Abs, func(e *explorer, x string) string { return "(fp.abs " + x + ")" }),
		"math.Floor": fmath1("Floor", math.Floor, func(e *explorer, x string) string { return "(fp.roundToIntegral RTN " + x + ")" }),
		"math.Ceil":  fmath1("Ceil", math.Ceil, func(e *explorer, x string) string { return "(fp.roundToIntegral RTP " + x + ")" }),
		"math.Trunc": fmath1("Trunc", math.Trunc, func(e *explorer, x string) string { return "(fp.roundToIntegral RTZ " + x + ")" }),
		"math.Round": fmath1("Round", math.Round, func(e *explorer, x string) string { return "(fp.roundToIntegral RNA " + x + ")" }),
		"math.Sqrt":  fmath1("Sqrt", math.Sqrt, func(e *explorer, x string) string { return "(fp.sqrt RNE " + x + ")" }),
		"math.Min": fmath2("Min", math.Min, func(e *explorer, x, y string) string {
			return "(ite (or (= " + x + " " + fpNegInf + ") (= " + y + " " + fpNegInf + ")) " + fpNegInf +
				" (ite (or (fp.isNaN " + x + ") (fp.isNaN " + y + ")) " + fpNaN +
				" (ite (and (fp.isZero " + x + ") (fp.isZero " + y + ")) (ite (fp.isNegative " + x + ") " + x + " " + y + ")" +
				" (ite (fp.lt " + x + " " + y + ") " + x + " " + y + "))))"
		}),
		"math.Max": fmath2("Max", math.Max, func(e *explorer, x, y string) string {
			return "(ite (or (= " + x + " " + fpPosInf + ") (= " + y + " " + fpPosInf + ")) " + fpPosInf +
				" (ite (or (fp.isNaN " + x + ") (fp.isNaN " + y + ")) " + fpNaN +
				" (ite (and (fp.isZero " + x + ") (fp.isZero " + y + ")) (ite (fp.isNegative " + x + ") " + y + " " + x + ")" +
				" (ite (fp.gt " + x + " " + y + ") " + x + " " + y + "))))"
		}),
		// uninterpreted: equal arguments give equal results, nothing else assumed
		"math.Mod":   fmath2("Mod", math.Mod, nil),
		"math.Pow":   fmath2("Pow", math.Pow, nil),
		"math.Atan2": fmath2("Atan2", math.Atan2, nil),
		"math.Log":   fmath1("Log", math.Log, nil),
		"math.Sin":   fmath1("Sin", math.Sin, nil),
		"math.Cos":   fmath1("Cos", math.Cos, nil),
		"math.Exp":   fmath1("Exp", math.Exp, nil),
		"math.IsNaN": func(fr *frame, a []value) value {
			if x, ok := a[0].(symF); ok {
				return symB{"(fp.isNaN " + x.t + ")"}
			}
			return math.IsNaN(a[0].(float64))
		},
		"math.IsInf": func(fr *frame, a []value) value {
			sign := int(asInt64(a[1]))
			if x, ok := a[0].(symF); ok {
				switch {
				case sign > 0:
					return symB{"(= " + x.t + " " + fpPosInf + ")"}
				case sign < 0:
					return symB{"(= " + x.t + " " + fpNegInf + ")"}
				}
				return symB{"(fp.isInfinite " + x.t + ")"}
			}
			return math.IsInf(a[0].(float64), sign)
		},
		"math.Signbit": func(fr *frame, a []value) value {
			if x, ok := a[0].(symF); ok {
				return symB{"(and (not (fp.isNaN " + x.t + ")) (fp.isNegative " + x.t + "))"}
			}
			return math.Signbit(a[0].(float64))
		},
		"math.Float64bits": func(fr *frame, a []value) value {
			if _, ok := a[0].(symF); ok {
				panic(unsupported("math.Float64bits of symbolic float"))
			}
			return math.Float64bits(a[0].(float64))
		},
		// --- rand: nondeterministic stub with contract ---
		// A *rand.Rand built from rand.NewSource(seed) is a pure function of the seed and
		// the number of calls made on it so far: the k-th result is the uninterpreted
		// function uf_rand(seed, k, n), constrained to the documented range. Two runs
		// from the same seed therefore build identical terms; the package-level functions
		// (global source) below stay fresh, unconstrained values.
		"math/rand.NewSource": func(fr *frame, a []value) value {
			st := value(&randState{seed: toI(a[0], types.Int64)})
			return iface{t: fr.i.stdType("math/rand", "rngSource", true), v: st}
		},
		"math/rand.New": func(fr *frame, a []value) value {
			var st *randState
			if it, ok := a[0].(iface); ok {
				st, _ = it.v.(*randState)
			}
			if st == nil {
				st = &randState{seed: fr.i.ex.freshVar("randseed", bvsort(64))}
			}
			v := value(st)
			return &v
		},
		"(*math/rand.Rand).Int31n": func(fr *frame, a []value) value {
			e := fr.i.ex
			e.reach("stub:rand.Int31n")
			nt := toI(a[1], types.Int32)
			if e.decide("(bvsle "+nt+" "+bvlit(0, 32)+")", "Int31n contract") {
				panic(targetPanic{iface{fr.i.runtimeErrorString, "invalid argument to Int31n"}})
			}
			var r string
			if st := randStateOf(a[0]); st != nil {
				decl := "(declare-fun uf_rand31 (" + bvsort(64) + " " + bvsort(32) + " " + bvsort(32) + ") " + bvsort(32) + ")"
				e.sol.declareRaw("uf_rand31", decl)
				if e.crs != nil {
					e.crs.declareRaw("uf_rand31", decl)
				}
				r = e.abbrev("(uf_rand31 "+st.seed+" "+bvlit(uint64(st.n), 32)+" "+nt+")", bvsort(32))
				st.n++
			} else {
				r = e.freshVar("rand31", bvsort(32))
			}
			e.addPC("(and (bvsle " + bvlit(0, 32) + " " + r + ") (bvslt " + r + " " + nt + "))")
			return symI{r, types.Int32}
		},
		"(*math/rand.Rand).Float64": func(fr *frame, a []value) value {
			e := fr.i.ex
			e.reach("stub:rand.Float64")
			var r string
			if st := randStateOf(a[0]); st != nil {
				decl := "(declare-fun uf_randf (" + bvsort(64) + " " + bvsort(32) + ") " + f64 + ")"
				e.sol.declareRaw("uf_randf", decl)
				if e.crs != nil {
					e.crs.declareRaw("uf_randf", decl)
				}
				r = e.abbrev("(uf_randf "+st.seed+" "+bvlit(uint64(st.n), 32)+")", f64)
				st.n++
			} else {
				r = e.freshVar("randf", f64)
			}
			e.addPC("(and (fp.leq " + fplit(0) + " " + r + ") (fp.lt " + r + " " + fplit(1) + "))")
			return symF{r}
		},
		"math/rand.Uint32": func(fr *frame, a []value) value {
			return symI{fr.i.ex.freshVar("randu32", bvsort(32)), types.Uint32}
		},
		"math/rand.Uint64": func(fr *frame, a []value) value {
			return symI{fr.i.ex.freshVar("randu64", bvsort(64)), types.Uint64}
		},
		"math/rand.Int63": func(fr *frame, a []value) value {
			e := fr.i.ex
			r := e.freshVar("rand63", bvsort(64))
			e.addPC("(bvsge " + r + " " + bvlit(0, 64) + ")")
			return symI{r, types.Int64}
		},
		"math/rand.Int": func(fr *frame, a []value) value {
			e := fr.i.ex
			r := e.freshVar("randint", bvsort(64))
			e.addPC("(bvsge " + r + " " + bvlit(0, 64) + ")")
			return symI{r, types.Int}
		},
		"math/rand.Intn": func(fr *frame, a []value) value {
			e := fr.i.ex
			nt := toI(a[0], types.Int)
			if e.decide("(bvsle "+nt+" "+bvlit(0, 64)+")", "Intn contract") {
				panic(targetPanic{iface{fr.i.runtimeErrorString, "invalid argument to Intn"}})
			}
			r := e.freshVar("randn", bvsort(64))
			e.addPC("(and (bvsle " + bvlit(0, 64) + " " + r + ") (bvslt " + r + " " + nt + "))")
			return symI{r, types.Int}
		},
		// --- cmp (generic instantiations) ---
		"cmp.Compare[float64]": func(fr *frame, a []value) value { return cmpCompareF(fr, a[0], a[1]) },
		"cmp.Less[float64]": func(fr *frame, a []value) value {
			c := cmpCompareF(fr, a[0], a[1])
			if ci, ok := c.(symI); ok {
				return symB{"(bvslt " + ci.t + " " + bvlit(0, 64) + ")"}
			}
			return c.(int) < 0
		},
		"cmp.Compare[string]": func(fr *frame, a []value) value {
			noAtoms("cmp.Compare", a...)
			return strings.Compare(a[0].(string), a[1].(string))
		},
		"cmp.Less[string]": func(fr *frame, a []value) value {
			noAtoms("cmp.Less", a...)
			return a[0].(string) < a[1].(string)
		},
		"cmp.Compare[int]": func(fr *frame, a []value) value {
			if isSym(a[0]) || isSym(a[1]) {
				x, y := toI(a[0], types.Int), toI(a[1], types.Int)
				return symI{"(ite (bvslt " + x + " " + y + ") " + bvlit(^uint64(0), 64) + " (ite (bvsgt " + x + " " + y + ") " + bvlit(1, 64) + " " + bvlit(0, 64) + "))", types.Int}
			}
			x, y := a[0].(int), a[1].(int)
			switch {
			case x < y:
				return -1
			case x > y:
				return 1
			}
			return 0
		},
		// --- time ---
		"time.Now": func(fr *frame, a []value) value { return structure{uint64(0), int64(0), (*value)(nil)} },
		"(time.Time).UnixNano": func(fr *frame, a []value) value {
			e := fr.i.ex
			return symI{e.freshVar("now", bvsort(64)), types.Int64}
		},
		"os.Exit": func(fr *frame, a []value) value {
			code := int(asInt64(a[0]))
			fr.i.ex.exitCode = code
			if fr.i.ex.catchExit {
				panic(targetPanic{iface{t: types.Typ[types.String], v: "zz-exit:" + strconv.Itoa(code)}})
			}
			panic(pathExit{code})
		},
		"time.Sleep": func(fr *frame, a []value) value { fr.i.ex.effect("sleep"); return nil },
		// --- sort ---
		"sort.Strings": func(fr *frame, a []value) value {
			x, _ := a[0].([]value)
			noAtoms("sort.Strings", x...)
			ss := strSlice(x)
			sortStrings(ss)
			for k := range x {
				x[k] = ss[k]
			}
			return nil
		},
		"slices.Sort[[]string string]": nil,
		"sort.Slice":                   sortSliceExt,
		"sort.SliceStable":             sortSliceExt,
		// --- encoding/binary ---
		"(encoding/binary.bigEndian).PutUint16": func(fr *frame, a []value) value {
			b := a[1].([]value)
			e := fr.i.ex
			_ = b[1]
			if x, ok := a[2].(symI); ok {
				xt := e.abbrev(x.t, bvsort(16))
				b[0] = symI{"((_ extract 15 8) " + xt + ")", types.Uint8}
				b[1] = symI{"((_ extract 7 0) " + xt + ")", types.Uint8}
				return nil
			}
			v := a[2].(uint16)
			b[0], b[1] = byte(v>>8), byte(v)
			return nil
		},
		"(encoding/binary.bigEndian).Uint16": func(fr *frame, a []value) value {
			b := a[1].([]value)
			_ = b[1]
			if isSym(b[0]) || isSym(b[1]) {
				return symI{"(concat " + toI(b[0], types.Uint8) + " " + toI(b[1], types.Uint8) + ")", types.Uint16}
			}
			return uint16(b[0].(byte))<<8 | uint16(b[1].(byte))
		},
	} {
		if v == nil {
			continue
		}
		externals[k] = wrapExternal(k, v)
	}
}

type opaque struct{ what string }

// randState: a seeded random source; n counts the calls made on it.
type randState struct {
	seed string
	n    int
}

func randStateOf(v value) *randState {
	if p, ok := v.(*value); ok && p != nil {
		st, _ := (*p).(*randState)
		return st
	}
	return nil
}

var opaquePtr value = structure{}

func sortStrings(ss []string) {
	for i := 1; i < len(ss); i++ {
		for j := i; j > 0 && ss[j] < ss[j-1]; j-- {
			ss[j], ss[j-1] = ss[j-1], ss[j]
		}
	}
}

// sortSliceExt: sort.Slice / sort.SliceStable on an interpreter slice with
// the target program's less function (stable insertion sort; a stable sort
// is one of the orders sort.Slice may produce).
func sortSliceExt(fr *frame, a []value) value {
	it, _ := a[0].(iface)
	xs, ok := it.v.([]value)
	if !ok {
		if it.v == nil {
			return nil
		}
		panic(unsupported("sort.Slice on %T", it.v))
	}
	less := func(i, j int) bool {
		r := call(fr.i, nil, 0, a[1], []value{i, j})
		switch b := r.(type) {
		case bool:
			return b
		case symB:
			return fr.i.ex.decide(b.t, "sort.Slice less")
		}
		panic(unsupported("sort.Slice less returned %T", r))
	}
	for i := 1; i < len(xs); i++ {
		for j := i; j > 0 && less(j, j-1); j-- {
			xs[j], xs[j-1] = xs[j-1], xs[j]
		}
	}
	return nil
}

// concretizeAtoms replaces every float atom of s by the text of one concrete
// model value (the value is fixed on the path; counted as concretised).
func (e *explorer) concretizeAtoms(s string) string {
	var sb strings.Builder
	for _, p := range splitAtoms(s) {
		if p.atom < 0 {
			sb.WriteString(p.lit)
			continue
		}
		a := e.atoms[p.atom]
		if a.sort != f64 {
			panic(unsupported("concretising a non-float atom"))
		}
		f := e.concretizeF(symF{a.term})
		switch a.fmt {
		case "f-1":
			sb.WriteString(strconv.FormatFloat(f, 'f', -1, 64))
		case "g-1":
			sb.WriteString(strconv.FormatFloat(f, 'g', -1, 64))
		default:
			sb.WriteString(fmt.Sprint(f))
		}
	}
	return sb.String()
}

// cmpCompareF: cmp.Compare on float64: NaN is less than any non-NaN and equal to NaN.
func cmpCompareF(fr *frame, a, b value) value {
	if !isSym(a) && !isSym(b) {
		x, y := a.(float64), b.(float64)
		xn, yn := x != x, y != y
		switch {
		case xn && yn:
			return 0
		case xn || x < y:
			return -1
		case yn || x > y:
			return 1
		}
		return 0
	}
	e := fr.i.ex
	x, y := e.abbrev(toF(a), f64), e.abbrev(toF(b), f64)
	m1, p1, z := bvlit(^uint64(0), 64), bvlit(1, 64), bvlit(0, 64)
	t := "(ite (and (fp.isNaN " + x + ") (fp.isNaN " + y + ")) " + z +
		" (ite (or (fp.isNaN " + x + ") (fp.lt " + x + " " + y + ")) " + m1 +
		" (ite (or (fp.isNaN " + y + ") (fp.gt " + x + " " + y + ")) " + p1 + " " + z + ")))"
	return symI{t, types.Int}
}

// printsAddress: fmt prints a value of dynamic type t under verb by
// reflection (no Error/String method applies to the verb) and t is a pointer
// to a struct that holds pointers, interfaces, channels or functions, whose
// addresses end up in the output.
func printsAddress(i *interpreter, t types.Type, verb byte) bool {
	ptr, ok := t.Underlying().(*types.Pointer)
	if !ok {
		return false
	}
	if strings.IndexByte("vsxXq", verb) >= 0 {
		if lookupMethodByName(i, t, "Error") != nil || lookupMethodByName(i, t, "String") != nil {
			return false
		}
	}
	st, ok := ptr.Elem().Underlying().(*types.Struct)
	if !ok {
		return verb != 'v' && verb != 's' || true // a pointer to a non-struct prints as an address
	}
	seen := map[types.Type]bool{}
	var has func(t types.Type) bool
	has = func(t types.Type) bool {
		if seen[t] {
			return false
		}
		seen[t] = true
		switch u := t.Underlying().(type) {
		case *types.Pointer, *types.Chan, *types.Signature, *types.Interface:
			return true
		case *types.Map:
			return has(u.Key()) || has(u.Elem())
		case *types.Slice:
			return has(u.Elem())
		case *types.Array:
			return has(u.Elem())
		case *types.Struct:
			for k := 0; k < u.NumFields(); k++ {
				if has(u.Field(k).Type()) {
					return true
				}
			}
		}
		return false
	}
	return has(st)
}
