package symgo

// SMT-LIB2 over pipes to a long-lived solver process (cvc5 --incremental,
// z3 -in). One process per worker. Every query is push / assert* /
// check-sat / get-value* / pop. Any "(error" line makes the answer
// "unknown" (inconclusive), never unsat.

import (
	"bufio"
	"fmt"
	"io"
	"os/exec"
	"regexp"
	"sort"
	"strings"
	"time"
)

type SolverSpec struct {
	Name string   // "cvc5", "z3", "z3-new"
	Args []string // argv
}

func SolverByName(name string, timeoutMs int) SolverSpec {
	switch name {
	case "z3":
		return SolverSpec{"z3", []string{"z3", "-in", fmt.Sprintf("-t:%d", timeoutMs)}}
	case "z3-new":
		return SolverSpec{"z3-new", []string{"z3-new", "-in", fmt.Sprintf("-t:%d", timeoutMs)}}
	default:
		return SolverSpec{"cvc5", []string{"cvc5", "--incremental", "--produce-models", "--lang=smt2", fmt.Sprintf("--tlimit-per=%d", timeoutMs)}}
	}
}

type solver struct {
	spec  SolverSpec
	cmd   *exec.Cmd
	in    io.WriteCloser
	out   *bufio.Reader
	decls map[string]string // persistent declarations name -> sort
	order []string
	nq    int
	dur   time.Duration
	dead  bool
}

func newSolver(spec SolverSpec) *solver {
	s := &solver{spec: spec, decls: map[string]string{}}
	s.start()
	return s
}

func (s *solver) start() {
	cmd := exec.Command(s.spec.Args[0], s.spec.Args[1:]...)
	in, _ := cmd.StdinPipe()
	outp, _ := cmd.StdoutPipe()
	cmd.Stderr = nil
	if err := cmd.Start(); err != nil {
		panic(fmt.Sprintf("cannot start solver %v: %v", s.spec.Args, err))
	}
	s.cmd, s.in, s.out, s.dead = cmd, in, bufio.NewReaderSize(outp, 1<<16), false
	io.WriteString(in, "(set-option :print-success false)\n(set-option :produce-models true)\n(set-logic ALL)\n")
	for _, n := range s.order {
		if d := s.decls[n]; strings.HasPrefix(d, "@") {
			fmt.Fprintf(in, "%s\n", d[1:])
		} else {
			fmt.Fprintf(in, "(declare-const %s %s)\n", n, d)
		}
	}
}

func (s *solver) close() {
	if s.cmd != nil && s.cmd.Process != nil {
		s.in.Close()
		s.cmd.Process.Kill()
		s.cmd.Wait()
	}
}

func (s *solver) restart() {
	s.close()
	s.start()
}

// declareRaw sends a persistent command (declare-fun / define-fun) once.
func (s *solver) declareRaw(name, cmd string) {
	if _, ok := s.decls[name]; ok {
		return
	}
	s.decls[name] = "@" + cmd
	s.order = append(s.order, name)
	fmt.Fprintf(s.in, "%s\n", cmd)
}

func (s *solver) declare(name, sort string) {
	if _, ok := s.decls[name]; ok {
		return
	}
	s.decls[name] = sort
	s.order = append(s.order, name)
	fmt.Fprintf(s.in, "(declare-const %s %s)\n", name, sort)
}

var abbrevRe = regexp.MustCompile(`![a-z]+[0-9]+`)

// check asks whether the conjunction of assertions is satisfiable.
// defs maps abbreviation names to (sort, body); the ones used are emitted
// as define-fun inside the push scope, dependencies first.
// Returns "sat", "unsat" or "unknown", and for sat the values of want.
func (s *solver) check(assertions []string, defs *abbrevTable, want []string) (string, map[string]string) {
	s.nq++
	t0 := time.Now()
	defer func() { s.dur += time.Since(t0) }()
	var sb strings.Builder
	sb.WriteString("(push 1)\n")
	if defs != nil {
		used := map[string]bool{}
		var visit func(t string)
		var order []string
		visit = func(t string) {
			for _, n := range abbrevRe.FindAllString(t, -1) {
				if used[n] {
					continue
				}
				d, ok := defs.m[n]
				if !ok {
					continue
				}
				used[n] = true
				visit(d.body)
				order = append(order, n)
			}
		}
		for _, a := range assertions {
			visit(a)
		}
		for _, n := range order {
			d := defs.m[n]
			fmt.Fprintf(&sb, "(define-fun %s () %s %s)\n", n, d.sort, d.body)
		}
	}
	for _, a := range assertions {
		sb.WriteString("(assert " + a + ")\n")
	}
	sb.WriteString("(check-sat)\n(echo \"@@done\")\n")
	if _, err := io.WriteString(s.in, sb.String()); err != nil {
		s.restart()
		return "unknown", nil
	}
	res := "unknown"
	sawErr := false
	for {
		line, err := s.out.ReadString('\n')
		if err != nil {
			s.restart()
			return "unknown", nil
		}
		line = strings.TrimSpace(strings.Trim(strings.TrimSpace(line), "\""))
		if line == "@@done" {
			break
		}
		switch {
		case line == "sat" || line == "unsat" || line == "unknown":
			res = line
		case strings.HasPrefix(line, "timeout"):
			res = "unknown"
		case strings.Contains(line, "(error"):
			sawErr = true
		}
	}
	if sawErr {
		res = "unknown"
	}
	var model map[string]string
	if res == "sat" && len(want) > 0 {
		model = map[string]string{}
		names := append([]string{}, want...)
		sort.Strings(names)
		for _, n := range names {
			io.WriteString(s.in, "(get-value ("+n+"))\n(echo \"@@done\")\n")
			var buf strings.Builder
			for {
				line, err := s.out.ReadString('\n')
				if err != nil {
					s.restart()
					return res, model
				}
				tl := strings.TrimSpace(strings.Trim(strings.TrimSpace(line), "\""))
				if tl == "@@done" {
					break
				}
				buf.WriteString(line)
			}
			v := strings.TrimSpace(buf.String())
			// ((name value))
			v = strings.TrimPrefix(v, "((")
			v = strings.TrimSuffix(v, "))")
			v = strings.TrimSpace(strings.TrimPrefix(strings.TrimSpace(v), n))
			model[n] = v
		}
	}
	io.WriteString(s.in, "(pop 1)\n")
	return res, model
}
