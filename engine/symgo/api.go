package symgo

// The nondet API the harnesses call (intercepted by function-name suffix),
// and string atoms (opaque pieces standing for FormatFloat of a symbolic
// number inside otherwise concrete Go strings).

import (
	"fmt"
	"go/types"
	"math"
	"strconv"
	"strings"
)

var externalSuffix = map[string]externalFn{}

func lookupExternal(name string) externalFn {
	if e := externals[name]; e != nil {
		return e
	}
	if k := strings.LastIndex(name, ".zz"); k >= 0 {
		if e := externalSuffix[name[k:]]; e != nil {
			return e
		}
	}
	return nil
}

func init() {
	for k, v := range map[string]externalFn{
		".zzFloat64": func(fr *frame, a []value) value {
			e := fr.i.ex
			if v, ok := e.fixed(a[0].(string)); ok {
				return math.Float64frombits(v)
			}
			t, _ := e.input(a[0].(string), f64)
			return symF{t}
		},
		".zzBool": func(fr *frame, a []value) value {
			e := fr.i.ex
			if v, ok := e.fixed(a[0].(string)); ok {
				return v != 0
			}
			t, _ := e.input(a[0].(string), "Bool")
			return symB{t}
		},
		// zzInt(name, lo, hi) int : symbolic int constrained to [lo,hi]
		".zzInt": func(fr *frame, a []value) value {
			e := fr.i.ex
			if v, ok := e.fixed(a[0].(string)); ok {
				return int(int64(v))
			}
			lo, hi := asInt64(a[1]), asInt64(a[2])
			t, _ := e.input(a[0].(string), bvsort(64))
			e.addPC("(and (bvsle " + bvlit(uint64(lo), 64) + " " + t + ") (bvsle " + t + " " + bvlit(uint64(hi), 64) + "))")
			return symI{t, types.Int}
		},
		// zzRune(name) rune : symbolic Unicode scalar value
		".zzRune": func(fr *frame, a []value) value {
			e := fr.i.ex
			if v, ok := e.fixed(a[0].(string)); ok {
				return int32(v)
			}
			t, _ := e.input(a[0].(string), bvsort(32))
			e.addPC("(and (bvsle " + bvlit(0, 32) + " " + t + ") (bvsle " + t + " " + bvlit(0x10FFFF, 32) + ") (not (and (bvsle " + bvlit(0xD800, 32) + " " + t + ") (bvsle " + t + " " + bvlit(0xDFFF, 32) + "))))")
			return symI{t, types.Int32}
		},
		".zzByte": func(fr *frame, a []value) value {
			e := fr.i.ex
			if v, ok := e.fixed(a[0].(string)); ok {
				return uint8(v)
			}
			t, _ := e.input(a[0].(string), bvsort(8))
			return symI{t, types.Uint8}
		},
		".zzUint16": func(fr *frame, a []value) value {
			e := fr.i.ex
			if v, ok := e.fixed(a[0].(string)); ok {
				return uint16(v)
			}
			t, _ := e.input(a[0].(string), bvsort(16))
			return symI{t, types.Uint16}
		},
		// zzChoice(name, n) int : concrete on each path, all n values explored
		".zzChoice": func(fr *frame, a []value) value {
			e := fr.i.ex
			name := a[0].(string)
			n := int(asInt64(a[1]))
			k := e.occ[name]
			e.occ[name] = k + 1
			user := fmt.Sprintf("%s#%d", name, k)
			var d int
			if v, ok := e.cfg.FixedInputs[user]; ok {
				d = int(toU64(v))
			} else {
				d = e.choose(n, nil, "choice")
			}
			e.choices[user] = InputVal{Sort: "choice", Bits: uint64(d), Text: strconv.Itoa(d)}
			return d
		},
		".zzParam": func(fr *frame, a []value) value {
			e := fr.i.ex
			if v, ok := e.cfg.Params[a[0].(string)]; ok {
				return int(v)
			}
			return int(asInt64(a[1]))
		},
		".zzAssume": func(fr *frame, a []value) value {
			e := fr.i.ex
			switch c := a[0].(type) {
			case symB:
				k := len(e.taken)
				if k < len(e.prefix) || true {
					// feasibility of the assumption is a (cached) decision so that
					// replayed prefixes do not re-ask the solver
					if !e.assumeFeasible(c.t) {
						panic(pathAbort{"assume infeasible"})
					}
				}
				e.addPC(c.t)
			case bool:
				if !c {
					panic(pathAbort{"assume false"})
				}
			}
			return nil
		},
		".zzAssert": func(fr *frame, a []value) value {
			fr.i.ex.assert(a[0], a[1].(string))
			return nil
		},
		".zzReach": func(fr *frame, a []value) value {
			fr.i.ex.reach(a[0].(string))
			return nil
		},
		".zzWitness": func(fr *frame, a []value) value {
			e := fr.i.ex
			if r, _ := e.query("", false); r == "sat" {
				e.reach("witness:" + a[0].(string))
			} else {
				e.reach("nowitness(" + r + "):" + a[0].(string))
			}
			return nil
		},
		".zzMapOrder": func(fr *frame, a []value) value {
			fr.i.ex.mapOrder = a[0].(bool)
			return nil
		},
		".zzSymbolic": func(fr *frame, a []value) value { return true },
		".zzSameNum": func(fr *frame, a []value) value {
			if !isSym(a[0]) && !isSym(a[1]) {
				x, y := a[0].(float64), a[1].(float64)
				return x == y || (x != x && y != y)
			}
			e := fr.i.ex
			x, y := e.abbrev(toF(a[0]), f64), e.abbrev(toF(a[1]), f64)
			if x == y {
				return true
			}
			return symB{"(or (fp.eq " + x + " " + y + ") (and (fp.isNaN " + x + ") (fp.isNaN " + y + ")))"}
		},
		".zzSameBits": func(fr *frame, a []value) value {
			if !isSym(a[0]) && !isSym(a[1]) {
				x, y := a[0].(float64), a[1].(float64)
				return math.Float64bits(x) == math.Float64bits(y) || (x != x && y != y)
			}
			e := fr.i.ex
			x, y := e.abbrev(toF(a[0]), f64), e.abbrev(toF(a[1]), f64)
			if x == y {
				return true
			}
			return symB{"(= " + x + " " + y + ")"}
		},
		".zzIsNaN": func(fr *frame, a []value) value {
			if x, ok := a[0].(symF); ok {
				return symB{"(fp.isNaN " + x.t + ")"}
			}
			x := a[0].(float64)
			return x != x
		},
		".zzAnd":     func(fr *frame, a []value) value { return mkB(sAnd(toB(a[0]), toB(a[1]))) },
		".zzOr":      func(fr *frame, a []value) value { return mkB(sOr(toB(a[0]), toB(a[1]))) },
		".zzImplies": func(fr *frame, a []value) value { return mkB(sOr(sNot(toB(a[0])), toB(a[1]))) },
		// zzIsSym(x any) bool: does x hold a symbolic scalar
		".zzConcreteF": func(fr *frame, a []value) value {
			// concretise a float: pick a model value and fix it
			e := fr.i.ex
			if x, ok := a[0].(symF); ok {
				return e.concretizeF(x)
			}
			return a[0]
		},
		".zzLog": func(fr *frame, a []value) value {
			if fr.i.ex.cfg.Verbose {
				fmt.Println("zzLog:", a[0])
			}
			return nil
		},
	} {
		externalSuffix[k] = v
	}
}

func toU64(v any) uint64 {
	switch v := v.(type) {
	case uint64:
		return v
	case int64:
		return uint64(v)
	case int:
		return uint64(v)
	case float64:
		return uint64(v)
	case bool:
		if v {
			return 1
		}
	}
	return 0
}

func (e *explorer) fixed(name string) (uint64, bool) {
	if e.cfg.FixedInputs == nil {
		return 0, false
	}
	k := e.occ[name]
	v, ok := e.cfg.FixedInputs[fmt.Sprintf("%s#%d", name, k)]
	if !ok {
		return 0, false
	}
	e.occ[name] = k + 1
	return toU64(v), true
}

// assumeFeasible records the feasibility of an assumption as a decision
// (value 1 feasible / 0 infeasible) so that replay does not re-query.
func (e *explorer) assumeFeasible(c string) bool {
	k := len(e.taken)
	var d int32
	if k < len(e.prefix) {
		d = e.prefix[k]
	} else {
		e.stats.BranchQueries++
		r, _ := e.query(c, false)
		if r == "unsat" {
			d = 2
		} else {
			d = 3
		}
	}
	e.taken = append(e.taken, d)
	return d&1 == 1
}

func (e *explorer) concretizeF(x symF) float64 {
	// decision-free concretisation: the value is a function of the path
	// condition and solver; recorded so that replay is deterministic.
	k := len(e.taken)
	nm := e.freshVar("concF", f64)
	e.addPC("(= " + nm + " " + x.t + ")")
	e.stats.Concretised++
	var bits uint64
	if k+1 < len(e.prefix) && e.prefix[k] == -1 {
		bits = uint64(uint32(e.prefix[k+1])) | uint64(uint32(e.prefix[k+2]))<<32
	} else {
		r, m := e.query("", true)
		if r != "sat" {
			panic(unsupported("concretize: solver said %s", r))
		}
		v, err := parseModelValue("f64", m[nm])
		if err != nil {
			panic(unsupported("concretize: %v", err))
		}
		bits = math.Float64bits(v.(float64))
	}
	e.taken = append(e.taken, -1, int32(uint32(bits)), int32(uint32(bits>>32)))
	f := math.Float64frombits(bits)
	if f != f {
		e.addPC("(fp.isNaN " + x.t + ")")
	} else {
		e.addPC("(= " + x.t + " " + fplit(f) + ")")
	}
	return f
}

// ---- string atoms ----

type atom struct {
	term string // float64 or bit-vector term
	sort string
	fmt  string // e.g. "f-1" (format byte, precision), "d64"
}

const atomOpen, atomClose = "\x00A", "\x00"

func (e *explorer) atomString(term, sort, fmtKey string) string {
	key := fmtKey + "|" + term
	idx, ok := e.atomIdx[key]
	if !ok {
		idx = len(e.atoms)
		e.atoms = append(e.atoms, atom{e.abbrev(term, sort), sort, fmtKey})
		e.atomIdx[key] = idx
	}
	return atomOpen + strconv.Itoa(idx) + atomClose
}

func hasAtom(s string) bool { return strings.Contains(s, atomOpen) }

type piece struct {
	lit  string
	atom int // -1 for literal
}

func splitAtoms(s string) []piece {
	var ps []piece
	for {
		k := strings.Index(s, atomOpen)
		if k < 0 {
			if s != "" {
				ps = append(ps, piece{lit: s, atom: -1})
			}
			return ps
		}
		if k > 0 {
			ps = append(ps, piece{lit: s[:k], atom: -1})
		}
		rest := s[k+len(atomOpen):]
		j := strings.Index(rest, atomClose)
		n, _ := strconv.Atoi(rest[:j])
		ps = append(ps, piece{atom: n})
		s = rest[j+1:]
	}
}

func numberish(s string) bool {
	for _, r := range s {
		if !(r >= '0' && r <= '9' || strings.ContainsRune(".eE+-NaInf", r)) {
			return false
		}
	}
	return true
}

// symStrEq decides equality of two strings that may contain atoms.
func (e *explorer) symStrEq(a, b string) value {
	pa, pb := splitAtoms(a), splitAtoms(b)
	checkDelimited(pa)
	checkDelimited(pb)
	conj := "true"
	for len(pa) > 0 && len(pb) > 0 {
		x, y := pa[0], pb[0]
		switch {
		case x.atom < 0 && y.atom < 0:
			// consume common prefix of literals
			n := len(x.lit)
			if len(y.lit) < n {
				n = len(y.lit)
			}
			if x.lit[:n] != y.lit[:n] {
				return false
			}
			if len(x.lit) == n {
				pa = pa[1:]
			} else {
				pa[0].lit = x.lit[n:]
			}
			if len(y.lit) == n {
				pb = pb[1:]
			} else {
				pb[0].lit = y.lit[n:]
			}
		case x.atom >= 0 && y.atom >= 0:
			ax, ay := e.atoms[x.atom], e.atoms[y.atom]
			if ax.fmt != ay.fmt || ax.sort != ay.sort {
				panic(unsupported("comparing atoms of different formats"))
			}
			// next pieces must be delimiters (non-numberish literal start or end)
			if ax.term != ay.term {
				conj = sAnd(conj, "(= "+ax.term+" "+ay.term+")")
			}
			pa, pb = pa[1:], pb[1:]
		default:
			// atom vs literal: take the maximal numberish prefix of the literal
			at, lit, swap := x, y, false
			if x.atom < 0 {
				at, lit, swap = y, x, true
			}
			k := 0
			for k < len(lit.lit) && numberish(lit.lit[k:k+1]) {
				k++
			}
			num := lit.lit[:k]
			aa := e.atoms[at.atom]
			switch {
			case aa.fmt == "f-1":
				f, err := strconv.ParseFloat(num, 64)
				if err != nil || strconv.FormatFloat(f, 'f', -1, 64) != num {
					// the literal is not something FormatFloat can print
					return false
				}
				if f != f {
					conj = sAnd(conj, "(fp.isNaN "+aa.term+")")
				} else {
					conj = sAnd(conj, "(= "+aa.term+" "+fplit(f)+")")
				}
			case aa.fmt[0] == 'd' || aa.fmt[0] == 'u':
				var bits int
				fmt.Sscanf(aa.fmt[1:], "%d", &bits)
				if aa.fmt[0] == 'd' {
					n, err := strconv.ParseInt(num, 10, bits)
					if err != nil || strconv.FormatInt(n, 10) != num {
						return false
					}
					conj = sAnd(conj, "(= "+aa.term+" "+bvlit(uint64(n), bits)+")")
				} else {
					n, err := strconv.ParseUint(num, 10, bits)
					if err != nil || strconv.FormatUint(n, 10) != num {
						return false
					}
					conj = sAnd(conj, "(= "+aa.term+" "+bvlit(n, bits)+")")
				}
			default:
				panic(unsupported("atom/literal comparison with format %s", aa.fmt))
			}
			rest := lit.lit[k:]
			if swap {
				pb = pb[1:]
				if rest == "" {
					pa = pa[1:]
				} else {
					pa[0].lit = rest
				}
			} else {
				pa = pa[1:]
				if rest == "" {
					pb = pb[1:]
				} else {
					pb[0].lit = rest
				}
			}
		}
	}
	if len(pa) > 0 || len(pb) > 0 {
		// one side has trailing content: an atom prints at least one char
		return false
	}
	return mkB(conj)
}

// checkDelimited: every atom must be separated from its neighbours by a
// character FormatFloat never prints, otherwise piecewise comparison would
// be unsound.
func checkDelimited(ps []piece) {
	for k, p := range ps {
		if p.atom < 0 {
			continue
		}
		if k > 0 {
			q := ps[k-1]
			if q.atom >= 0 || numberish(q.lit[len(q.lit)-1:]) {
				panic(unsupported("ambiguous atom boundary in string comparison"))
			}
		}
		if k+1 < len(ps) {
			q := ps[k+1]
			if q.atom >= 0 || numberish(q.lit[:1]) {
				panic(unsupported("ambiguous atom boundary in string comparison"))
			}
		}
	}
}
